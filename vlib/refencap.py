"""Strict EtherNet/IP encapsulation + common packet format parser/builder (CIP Vol 2, ch. 2).
Independent of pycomm3."""

CMD_NOP, CMD_LIST_SERVICES, CMD_LIST_IDENTITY, CMD_LIST_INTERFACES = 0x00, 0x04, 0x63, 0x64
CMD_REGISTER, CMD_UNREGISTER, CMD_RRDATA, CMD_UNITDATA = 0x65, 0x66, 0x6F, 0x70
KNOWN_CMDS = {CMD_NOP, CMD_LIST_SERVICES, CMD_LIST_IDENTITY, CMD_LIST_INTERFACES, CMD_REGISTER, CMD_UNREGISTER, CMD_RRDATA, CMD_UNITDATA}
ITEM_NULL, ITEM_CONN_ADDR, ITEM_CONN_DATA, ITEM_UNCONN_DATA, ITEM_IDENTITY = 0x0000, 0x00A1, 0x00B1, 0x00B2, 0x000C
HEADER = 24


class EncapError(Exception):
    def __init__(self, key, msg):
        super().__init__(msg)
        self.key = key


def u16(b, o):
    return int.from_bytes(b[o:o + 2], "little")


def u32(b, o):
    return int.from_bytes(b[o:o + 4], "little")


def parse_header(b):
    if len(b) < HEADER:
        raise EncapError("short-header", f"only {len(b)} bytes, header needs 24")
    return {"command": u16(b, 0), "length": u16(b, 2), "session": u32(b, 4), "status": u32(b, 8),
            "context": bytes(b[12:20]), "options": u32(b, 20)}


def build_frame(command, session, body=b"", status=0, context=bytes(8), options=0):
    return (command.to_bytes(2, "little") + len(body).to_bytes(2, "little") + session.to_bytes(4, "little")
            + status.to_bytes(4, "little") + context + options.to_bytes(4, "little") + body)


def parse_cpf(body, strict=True):
    """-> (interface_handle, timeout, [(type, data), ...]); strict: no trailing bytes, exact item lengths"""
    if len(body) < 8:
        raise EncapError("cpf-short", f"command data of {len(body)} bytes cannot hold interface handle, timeout and item count")
    iface, timeout, count = u32(body, 0), u16(body, 4), u16(body, 6)
    items, o = [], 8
    for i in range(count):
        if o + 4 > len(body):
            raise EncapError("cpf-item-truncated", f"item {i} header runs past the command data")
        t, ln = u16(body, o), u16(body, o + 2)
        o += 4
        if o + ln > len(body):
            raise EncapError("cpf-item-length", f"item {i} (type {t:#06x}) announces {ln} bytes but only {len(body) - o} follow")
        items.append((t, bytes(body[o:o + ln])))
        o += ln
    if strict and o != len(body):
        raise EncapError("cpf-trailing", f"{len(body) - o} bytes follow the last item (item lengths do not cover the command data)")
    return iface, timeout, items


def build_cpf(items, iface=0, timeout=0):
    out = iface.to_bytes(4, "little") + timeout.to_bytes(2, "little") + len(items).to_bytes(2, "little")
    for t, d in items:
        out += t.to_bytes(2, "little") + len(d).to_bytes(2, "little") + d
    return out


def selftest():
    n = 0
    # docs/getting_started.rst: RegisterSession request / reply, ListIdentity reply
    req = bytes.fromhex("65000400000000000000000 05f7079636f6d6d5f0000000001000000".replace(" ", ""))
    h = parse_header(req)
    assert (h["command"], h["length"], h["session"], h["status"], h["context"], h["options"]) == (0x65, 4, 0, 0, b"_pycomm_", 0); n += 1
    assert req[24:] == b"\x01\x00\x00\x00"; n += 1
    assert build_frame(0x65, 0, b"\x01\x00\x00\x00", context=b"_pycomm_") == req; n += 1
    li = bytes.fromhex("630045000298020b000000005f7079636f6d6d5f0000000001000c003f0001000002af12c0a801ec0000000000000000"
                       "01000c00bf001413300090be1ec01d313736392d4c3233452d5142464331204574686572 6e657420506f727403".replace(" ", ""))
    h = parse_header(li)
    assert h["command"] == 0x63 and h["length"] == 0x45 == len(li) - 24; n += 1
    body = li[24:]
    assert u16(body, 0) == 1 and u16(body, 2) == ITEM_IDENTITY and u16(body, 4) == 0x3F == len(body) - 6; n += 1
    # docs/usage/cipdriver.rst: connected get_plc_name request
    ud = bytes.fromhex("70001c00000b020b000000005f7079636f6d6d5f00000000000000000a000200a1000400c1043501b1000800530001022064 2401".replace(" ", ""))
    h = parse_header(ud)
    assert h["command"] == 0x70 and h["length"] == len(ud) - 24; n += 1
    iface, to, items = parse_cpf(ud[24:])
    assert iface == 0 and to == 10 and items == [(ITEM_CONN_ADDR, bytes.fromhex("c1043501")), (ITEM_CONN_DATA, bytes.fromhex("5300010220642401"))]; n += 1
    assert build_cpf(items, timeout=10) == ud[24:]; n += 1
    for bad, key in ((ud[24:-1], "cpf-item-length"), (ud[24:] + b"\x00", "cpf-trailing")):
        try:
            parse_cpf(bad)
            raise AssertionError("accepted malformed CPF")
        except EncapError as e:
            assert e.key == key, e.key
            n += 1
    return n
