"""Fake OS sockets: the harness replaces `socket.socket` (and name resolution) in the real socket
module inside its own process, so the library's real Socket/driver code runs on top of an in-process
byte pipe to a reference target.  Only behaviours a real TCP/UDP socket may legally show are modelled:
partial sends, short receives, timeouts, resets, EOF."""
import socket as _real

from .monitors import BudgetExceeded

_orig = {}


class Schedule:
    """Decides how many bytes each send()/recv() moves and where faults strike.  Default: everything at once."""

    def send_accept(self, sock, nbytes):
        return nbytes

    def recv_size(self, sock, bufsize, available):
        return min(bufsize, available)


class ChunkSchedule(Schedule):
    """recv returns the scripted chunk sizes (then whatever is left); send accepts scripted sizes."""

    def __init__(self, recv_chunks=None, send_chunks=None):
        self.recv_chunks = list(recv_chunks or [])
        self.send_chunks = list(send_chunks or [])

    def send_accept(self, sock, nbytes):
        if self.send_chunks:
            return max(1, min(nbytes, self.send_chunks.pop(0)))
        return nbytes

    def recv_size(self, sock, bufsize, available):
        if self.recv_chunks:
            return max(1, min(bufsize, available, self.recv_chunks.pop(0)))
        return min(bufsize, available)


class RandomSchedule(Schedule):
    def __init__(self, rng, p_split=0.5, max_chunk=None):
        self.rng, self.p, self.max_chunk = rng, p_split, max_chunk

    def _cut(self, n):
        if n > 1 and self.rng.random() < self.p:
            m = self.rng.randint(1, n)
            if self.max_chunk:
                m = min(m, self.max_chunk)
            return m
        return n

    def send_accept(self, sock, nbytes):
        return self._cut(nbytes)

    def recv_size(self, sock, bufsize, available):
        return self._cut(min(bufsize, available))


class Fault:
    """Transport fault at the k-th I/O operation (1-based, counted over send+recv calls of the net).
    kind: 'send-raise' | 'recv-raise' | 'recv-eof' | 'vanish' | 'send-zero'"""

    def __init__(self, k, kind, exc=None):
        self.k, self.kind, self.exc = k, kind, exc
        self.fired = False


class FakeNet:
    def __init__(self):
        self.endpoints = {}      # (host, port) -> object with .accept(sock) -> conn (feed/close callbacks)
        self.udp_handler = None  # callable(data, addr) -> list of reply datagrams
        self.schedule = Schedule()
        self.io_ops = 0
        self.fault = None
        self.vanished = False
        self.sockets = []
        self.log = []            # ('connect'|'send'|'recv'|'close', sock id, detail)
        self.record = False
        self.send_calls = []     # bytes of every OS-level send() call argument (C11)
        self.resolve = {}
        self.call_ops = 0        # I/O operations since the current public call started (logical step budget)
        self.call_budget = 60000

    # -- installation ------------------------------------------------------------------------------
    def install(self):
        if not _orig:
            _orig.update(socket=_real.socket, gethostbyname=_real.gethostbyname, getaddrinfo=_real.getaddrinfo,
                         gethostname=_real.gethostname, create_connection=_real.create_connection)
        net = self

        def factory(family=_real.AF_INET, type=_real.SOCK_STREAM, proto=0, fileno=None):  # noqa: A002
            s = FakeOSSocket(net, family, type)
            net.sockets.append(s)
            return s

        _real.socket = factory
        _real.gethostbyname = lambda host: self.resolve.get(host, host)
        _real.gethostname = lambda: "verif-host"
        _real.getaddrinfo = lambda host, port, *a, **k: [(_real.AF_INET, _real.SOCK_STREAM, 6, "", ("192.0.2.10", 0))]
        return self

    @staticmethod
    def uninstall():
        for k, v in _orig.items():
            setattr(_real, k, v)

    # -- fault bookkeeping -----------------------------------------------------------------------------
    def op(self, kind):
        """count one I/O op; return the fault to apply now (or None)"""
        self.io_ops += 1
        self.call_ops += 1
        if self.call_ops > self.call_budget:
            raise BudgetExceeded(f"more than {self.call_budget} socket operations inside one public call")
        f = self.fault
        if f and not f.fired and self.io_ops >= f.k:
            if f.kind == "vanish":
                f.fired = True
                self.vanished = True
                return f
            if f.kind.startswith(kind):
                f.fired = True
                return f
        return None

    def reset_faults(self):
        """faults stop; the peer is reachable again.  TCP connections the client closed while the peer was unreachable
        have timed out on the peer's side by now."""
        self.fault = None
        self.vanished = False
        self.io_ops = 0
        for s in self.sockets:
            if s.closed and s.conn is not None and not getattr(s.conn, "closed", True):
                s.conn.client_closed()


class FakeOSSocket:
    def __init__(self, net, family, type_):
        self.net, self.family, self.type = net, family, type_
        self.timeout = None
        self.conn = None          # endpoint-side connection object
        self.rx = bytearray()     # bytes in flight towards the client
        self.peer_closed = False
        self.closed = False
        self.connected = False
        self.opts = []
        self.addr = None
        self.udp_rx = []
        self.sent_total = 0
        self.recv_calls = 0
        self.on_drained = None    # callback once everything in flight has been read by the client

    # -- plumbing ---------------------------------------------------------------------------------------
    def settimeout(self, t):
        self.timeout = t

    def gettimeout(self):
        return self.timeout

    def setsockopt(self, *a):
        self.opts.append(a)

    def setblocking(self, flag):
        pass

    def bind(self, addr):
        self.addr = addr

    def fileno(self):
        return -1

    def shutdown(self, how):
        pass

    def connect(self, addr):
        if self.closed:
            raise OSError(9, "Bad file descriptor")
        host, port = addr
        ep = self.net.endpoints.get((host, port))
        if ep is None or self.net.vanished:
            raise ConnectionRefusedError(111, "Connection refused")
        self.conn = ep.accept(self)
        self.connected = True
        self.addr = addr
        if self.net.record:
            self.net.log.append(("connect", id(self), addr))

    # -- data path ----------------------------------------------------------------------------------------
    def send(self, data, flags=0):
        if self.closed:
            raise OSError(9, "Bad file descriptor")
        if not self.connected:
            raise BrokenPipeError(32, "Broken pipe")
        data = bytes(data)
        f = self.net.op("send")
        if self.net.vanished:
            raise ConnectionResetError(104, "Connection reset by peer")
        if f is not None:
            if f.kind == "send-zero":
                return 0
            raise (f.exc or ConnectionResetError(104, "Connection reset by peer"))
        if self.peer_closed:
            raise BrokenPipeError(32, "Broken pipe")
        if self.timeout == 0 and getattr(self, "_nb_send_partial", False):
            # non-blocking socket whose previous send() was cut short (buffer full): nothing is waited for
            self._nb_send_partial = False
            raise BlockingIOError(11, "Resource temporarily unavailable")
        n = self.net.schedule.send_accept(self, len(data))
        self._nb_send_partial = n < len(data)
        self.net.send_calls.append(data)
        self.sent_total += n
        if self.conn is not None:
            self.conn.feed(data[:n])
        return n

    def sendall(self, data, flags=0):
        data = bytes(data)
        while data:
            n = self.send(data)
            data = data[n:]

    def recv(self, bufsize, flags=0):
        if self.closed:
            raise OSError(9, "Bad file descriptor")
        self.recv_calls += 1
        if self.type == _real.SOCK_DGRAM:
            if self.udp_rx:
                return self.udp_rx.pop(0)[:bufsize]
            raise _real.timeout("timed out")
        f = self.net.op("recv")
        if self.net.vanished:
            raise ConnectionResetError(104, "Connection reset by peer")
        if f is not None:
            self.rx.clear()  # the in-flight reply is lost with the fault (no stale replies later)
            self.on_drained = None
            if f.kind == "recv-eof":
                self.peer_closed = True
                if self.conn is not None and hasattr(self.conn, "peer_initiated_close"):
                    self.conn.peer_initiated_close()
                return b""
            raise (f.exc or _real.timeout("timed out"))
        if not self.rx:
            if self.peer_closed:
                return b""
            if self.timeout == 0:
                raise BlockingIOError(11, "Resource temporarily unavailable")
            raise _real.timeout("timed out")
        n = self.net.schedule.recv_size(self, bufsize, len(self.rx))
        if self.timeout == 0 and n < len(self.rx) and getattr(self, "_nb_recv_taken", False):
            # non-blocking socket: the segment the previous recv() returned was all that had arrived; the next one is not waited for
            self._nb_recv_taken = False
            raise BlockingIOError(11, "Resource temporarily unavailable")
        self._nb_recv_taken = n < len(self.rx)
        out = bytes(self.rx[:n])
        del self.rx[:n]
        if not self.rx and self.on_drained is not None:
            cb, self.on_drained = self.on_drained, None
            cb()
        return out

    def sendto(self, data, addr):
        if self.net.udp_handler is None:
            return len(data)
        self.net.last_udp_bound = getattr(self, "addr", None)   # the local address the datagram leaves from (None: unbound socket)
        self.net.udp_destinations = getattr(self.net, "udp_destinations", []) + [addr]
        self.udp_rx.extend(self.net.udp_handler(bytes(data), addr))
        return len(data)

    def close(self):
        if self.closed:
            return
        self.closed = True
        if self.conn is not None and not self.net.vanished:
            self.conn.client_closed()
        if self.net.record:
            self.net.log.append(("close", id(self), None))

    # endpoint side API
    def deliver(self, data):
        self.rx += data

    def peer_close(self):
        self.peer_closed = True
