"""Controller project model for the reference Logix target: data types (atomic, UDT templates with packed BOOLs
on hidden hosts, string types), tags (arrays 1-3 dims, BOOL arrays as DWORDs, program scope, aliases), system
symbols, memory image; request resolver and expected-value interpreter.  Independent of pycomm3.
Layout rules: DESIGN.md section 4.0 (Logix 5000 Data Access, 1756-PM020)."""
import re

from . import refcodec as rc

ATOMS = {
    # name: (code, size, refcodec descriptor)
    "BOOL": (0xC1, 1, ("bool",)), "SINT": (0xC2, 1, ("int", 1, True)), "INT": (0xC3, 2, ("int", 2, True)),
    "DINT": (0xC4, 4, ("int", 4, True)), "LINT": (0xC5, 8, ("int", 8, True)), "USINT": (0xC6, 1, ("int", 1, False)),
    "UINT": (0xC7, 2, ("int", 2, False)), "UDINT": (0xC8, 4, ("int", 4, False)), "ULINT": (0xC9, 8, ("int", 8, False)),
    "REAL": (0xCA, 4, ("real", 4)), "LREAL": (0xCB, 8, ("real", 8)), "DWORD": (0xD3, 4, ("bits", 4)),
}
INT_ATOMS = ("SINT", "INT", "DINT", "LINT", "USINT", "UINT", "UDINT", "ULINT")
HIDDEN_PREFIXES = ("ZZZZZZZZZZ", "__")
BASE_TAG_BIT = 1 << 26
EXTERNAL_ACCESS = {0: "Read/Write", 2: "Read Only", 3: "None"}


class DType:
    def __init__(self, name, kind, code=None, size=0):
        self.name, self.kind, self.code, self.size = name, kind, code, size
        self.members = []          # struct: list of Member
        self.template_id = None
        self.handle = None
        self.capacity = None       # string types
        self.overlapped = False    # BOOL members alias bits of visible members (module-defined types)
        self.bare_name = False     # predefined types of newer firmware: the template's first string is the bare type name (no ";n...")
        self.template_name = None  # name inside the template when it differs from the user-visible one (builtin STRING: "ASCIISTRING82")
        self._desc = None

    @property
    def predefined(self):
        """template instance id outside the user range 0x100..0xEFF (TIMER, COUNTER, CONTROL, ... and module-defined types)"""
        return self.template_id is not None and not 0x100 <= self.template_id <= 0xEFF

    def is_hidden(self, m):
        """not user-visible: the hidden BOOL hosts of UDTs (ZZZZZZZZZZ...), system members (__...), and the status word
        `CTL` / `Control` of predefined types whose bits the visible BOOL members (EN, TT, DN, ...) alias"""
        return m.name.startswith(HIDDEN_PREFIXES) or (self.predefined and m.name in ("CTL", "Control"))

    @property
    def is_struct(self):
        return self.kind in ("struct", "string")

    def align(self):
        if self.kind == "atomic":
            return self.size
        return max([4] + [m.dtype.align() for m in self.members if not m.is_bit])

    def desc(self):
        """refcodec descriptor of one value of this type"""
        if self._desc is not None:
            return self._desc
        if self.kind == "atomic":
            d = ATOMS[self.name][2]
        elif self.kind == "string":
            d = ("lstr", self.size, self.capacity)
        else:
            members, bits, private = [], [], set()
            for m in self.members:
                if m.is_bit:
                    bits.append((m.name, m.offset, m.bit))
                else:
                    md = m.dtype.desc()
                    if m.array_len:
                        md = ("array", m.array_len, md)
                    members.append((m.name, md, m.offset))
                if self.is_hidden(m):
                    private.add(m.name)
            d = ("udt", self.size, tuple(members), tuple(bits), frozenset(private))
        self._desc = d
        return d

    def visible_members(self):
        return [m for m in self.members if not self.is_hidden(m)]

    def member(self, name):
        for m in self.members:
            if m.name == name:
                return m
        return None

    # ---- template object content -------------------------------------------------------------------------------
    def member_count(self):
        return len(self.members)

    def template_body(self):
        out = b""
        for m in self.members:
            if m.is_bit:
                info, typ = m.bit, 0xC1
            else:
                info = m.array_len
                typ = m.dtype.code if m.dtype.kind == "atomic" else (0x8000 | m.dtype.template_id)
                if m.array_len:
                    typ |= 0x2000
            out += info.to_bytes(2, "little") + typ.to_bytes(2, "little") + m.offset.to_bytes(4, "little")
        if self.bare_name and self.predefined:
            out += self.name.encode("ascii") + b"\x00"
        else:
            out += f"{self.template_name or self.name};n{self.handle:X}".encode("ascii") + b"\x00"
        for m in self.members:
            out += (b"" if getattr(m, "unnamed", False) else m.name.encode("ascii")) + b"\x00"
        return out

    def definition_size(self):
        """object definition size in 32-bit words: (len + 23) rounded up (PM020: bytes to read = size*4 - 23)"""
        return (len(self.template_body()) + 23 + 3) // 4

    def template_bytes(self):
        body = self.template_body()
        total = self.definition_size() * 4 - 23
        return body + bytes(total - len(body))


class Member:
    def __init__(self, name, dtype, offset, array_len=0, bit=None):
        self.name, self.dtype, self.offset, self.array_len, self.bit = name, dtype, offset, array_len, bit

    @property
    def is_bit(self):
        return self.bit is not None

    def nbytes(self):
        if self.is_bit:
            return 0
        return self.dtype.size * (self.array_len or 1)


ATOM_TYPES = {n: DType(n, "atomic", code=c, size=s) for n, (c, s, d) in ATOMS.items()}


SYSTEM_SYMBOL_TYPES = {"program": 0x1068, "routine": 0x106D, "task": 0x1070, "map": 0x1069}


class Tag:
    def __init__(self, name, dtype, dims=(), instance_id=0, program=None, alias=False, access=0, kind="user"):
        self.name, self.dtype, self.dims, self.instance_id = name, dtype, tuple(dims), instance_id
        self.program, self.alias, self.access, self.kind = program, alias, access, kind
        self.attr3 = self.attr5 = 0
        self.attr6 = 0
        self.bool_bit = 0
        self.data = bytearray()

    @property
    def elements(self):
        n = 1
        for d in self.dims:
            n *= d
        return n

    @property
    def full_name(self):
        return f"Program:{self.program}.{self.name}" if self.program else self.name

    def symbol_type(self):
        t = self.dtype
        if self.kind in SYSTEM_SYMBOL_TYPES and self.instance_id % 3:
            # what genuine controllers list for these: a system symbol (bit 12) of an object class code, not a data type; the remaining
            # third keeps the plain-DINT look of simulators / older firmware.  Either way the NAME decides what the symbol is.
            return SYSTEM_SYMBOL_TYPES[self.kind]
        if t.is_struct:
            w = 0x8000 | t.template_id
        else:
            w = t.code
            if t.name == "BOOL":
                w |= (self.bool_bit & 7) << 8
        w |= len(self.dims) << 13
        if self.kind == "system-bit":
            w |= 0x1000
        return w

    def dims3(self):
        return list(self.dims) + [0] * (3 - len(self.dims))


class Project:
    def __init__(self):
        self.types = {}        # name -> DType (struct/string)
        self.by_template = {}  # template id -> DType
        self.symbols = []      # controller-scope symbols (Tag objects incl. system kinds), ordered by instance id
        self.programs = {}     # name -> {"instance_id":, "routines": [...], "symbols": [Tag...]}
        self.tasks = {}
        self.fw_major = 32
        self.micro800 = False
        self.name = "prj"

    # ---- lookup ---------------------------------------------------------------------------------------------------
    def scope_symbols(self, program=None):
        if program is None:
            return self.symbols
        return self.programs[program]["symbols"]

    def find(self, name, program=None):
        for t in self.scope_symbols(program):
            if t.name == name and t.kind in ("user", "module", "alias"):
                return t
        return None

    def find_instance(self, iid, program=None):
        for t in self.scope_symbols(program):
            if t.instance_id == iid and t.kind in ("user", "module", "alias"):
                return t
        return None

    def user_tags(self, with_programs=True):
        out = [t for t in self.symbols if t.kind in ("user", "module", "alias")]
        if with_programs:
            for p in self.programs.values():
                out += [t for t in p["symbols"] if t.kind in ("user", "alias")]
        return out

    def snapshot(self):
        return {t.full_name: bytes(t.data) for t in self.user_tags()}


# -------------------------------------------------------------------------------------------------------------------------
# generator
# -------------------------------------------------------------------------------------------------------------------------
_NAME_CHARS = "ABCDEFGHIJKLMNOPQRSTUVWXYZabcdefghijklmnopqrstuvwxyz"


def _name(rng, used, n=None, prefix=""):
    while True:
        n_ = n or rng.choice([1, 2, 3, 5, 8, 12, 15, 16, 20, 31, 39, 40])
        nm = prefix + rng.choice(_NAME_CHARS) + "".join(rng.choice(_NAME_CHARS + "0123456789_") for _ in range(max(0, n_ - 1 - len(prefix))))
        nm = re.sub(r"__+", "_x", nm)
        if nm.lower() not in used and not nm.startswith(HIDDEN_PREFIXES) and not nm[-1] == "_":
            used.add(nm.lower())
            return nm


def make_string_type(prj, rng, name, cap, used_ids):
    t = DType(name, "string")
    t.capacity = cap
    t.size = (4 + cap + 3) // 4 * 4
    t.members = [Member("LEN", ATOM_TYPES["DINT"], 0), Member("DATA", ATOM_TYPES["SINT"], 4, array_len=cap)]
    _assign_ids(prj, rng, t, used_ids)
    return t


def _assign_ids(prj, rng, t, used_ids, predefined=False, edge=False):
    tries = 0
    while True:
        tries += 1
        tid = rng.randrange(0xF00, 0x1000) if predefined else rng.randrange(0x100, 0xF00)
        if rng.random() < 0.15:  # the ends of the user / predefined template-id ranges
            tid = rng.choice([0xF00, 0xF01, 0xFFF] if predefined else [0x100, 0x101, 0xEFE, 0xEFF])
        if edge and not predefined and tries <= 4:  # first and last id of the user range
            tid = rng.choice([0x100, 0xEFF])
        if tid not in used_ids["template"]:
            used_ids["template"].add(tid)
            break
    while True:
        h = rng.randrange(1, 0x10000)
        if h not in used_ids["handle"]:
            used_ids["handle"].add(h)
            break
    # the structure handle is a 16-bit checksum of the definition: two DIFFERENT templates may legitimately report the same one;
    # a type is identified by its template instance id, never by its handle
    others = sorted(x.handle for x in prj.types.values() if x.handle is not None and x is not t)
    if others and rng.random() < 0.06:
        h = rng.choice(others)
    elif rng.random() < 0.04:
        h = rng.choice([0, 0, 0xFFFF])   # any 16-bit value is a structure handle, 0 included
    t.template_id, t.handle = tid, h
    prj.types[t.name] = t
    prj.by_template[tid] = t


def make_udt(prj, rng, name, pool, used_ids, depth, max_members=12):
    """A UDT laid out like Logix does: hidden SINT hosts for consecutive BOOLs, natural alignment, size padded."""
    t = DType(name, "struct")
    used = set()
    off = 0
    members = []
    n = rng.randint(1, max_members)
    host, host_bits, host_count = None, 0, 0
    # "CTL" / "Control" are ordinary, visible member names in a user-defined type (the library hides them only in predefined
    # types, which are not generated with these names - see ASSUMPTIONS of C05); paired with the first/last user template id
    predefined = rng.random() < 0.10
    ctl_at = rng.randrange(n) if (not predefined and rng.random() < 0.12) else -1
    # a predefined type shaped like the real ones (TIMER, COUNTER, CONTROL ...): a status word `CTL` / `Control` at offset 0 that is
    # not user-visible, whose bits 31, 30, 29 ... the visible BOOL members alias
    ctl_bits = None
    if predefined and rng.random() < 0.6:
        cname = rng.choice(["CTL", "Control"])
        used.add(cname.lower())
        members.append(Member(cname, ATOM_TYPES["DINT"], 0))
        off = 4
        ctl_bits = 31
        t.bare_name = prj.fw_major >= 32 and rng.random() < 0.5
    i = 0
    while i < n:
        r = rng.random()
        mname = _name(rng, used, rng.choice([1, 2, 4, 6, 7, 12, 13, 24, 40]))
        if rng.random() < 0.02:
            # member names are the programmer's: also words the library uses as keys of its own definition dicts, and names that
            # begin with ONE underscore (only two make a system member)
            cand_ = rng.choice(["type_class", "_struct_members", "data_type", "internal_tags", "attributes", "template", "string", "name", "offset", "bit", "array",
                                "_x", "_Counter", "_IO_EM_DO_00"])
            if cand_.lower() not in used:
                used.add(cand_.lower())
                mname = cand_
        if i == ctl_at:
            mname = rng.choice(["CTL", "Control"])
            used.add(mname)
        if r < (0.5 if ctl_bits is not None else 0.28) and ctl_bits is not None and ctl_bits >= 32 - rng.choice([3, 6, 11, 32]):
            members.append(Member(mname, ATOM_TYPES["BOOL"], ctl_bits // 8, bit=ctl_bits % 8))
            ctl_bits -= 1
        elif r < 0.28:  # BOOL member on a hidden host
            if host is None or host_bits == 8:
                hname = f"ZZZZZZZZZZ{name[:12]}{host_count}"
                host = Member(hname, ATOM_TYPES["SINT"], off)
                host_count += 1
                host_bits = 0
                members.append(host)
                off += 1
            members.append(Member(mname, ATOM_TYPES["BOOL"], host.offset, bit=host_bits))
            host_bits += 1
        else:
            host = None
            kind = rng.random()
            if kind < 0.55 or not pool or depth <= 0:
                dt = ATOM_TYPES[rng.choice(["SINT", "INT", "DINT", "DINT", "LINT", "REAL", "REAL", "LREAL", "USINT", "UINT", "UDINT", "ULINT"])]
                arr = rng.choice([0, 0, 0, 1, 2, 3, 5, 10]) if rng.random() < 0.35 else 0
            elif kind < 0.65:
                dt = ATOM_TYPES["DWORD"]  # BOOL array member
                arr = rng.choice([1, 2, 3])
            else:
                dt = rng.choice(pool)
                arr = rng.choice([0, 0, 1, 2, 3]) if rng.random() < 0.4 else 0
            al = 4 if arr else dt.align()
            al = max(al, dt.align())
            off = (off + al - 1) // al * al
            members.append(Member(mname, dt, off, array_len=arr))
            off += dt.size * (arr or 1)
        i += 1
    if ctl_bits == 31:  # the status word hosts at least one visible BOOL: that is what makes it an internal host member
        members.append(Member(_name(rng, used, rng.choice([2, 2, 3, 6])), ATOM_TYPES["BOOL"], 3, bit=7))
    if rng.random() < 0.12:
        # reserved / pad members WITHOUT a name at the end of the definition (module-defined and predefined types have them): an empty
        # string in the template's name block.  Not user-visible; the reference calls them what the library does (`__unknown<n>`).
        for k_ in range(rng.choice([1, 1, 2])):
            dt = ATOM_TYPES[rng.choice(["SINT", "INT", "DINT"])]
            off = (off + dt.align() - 1) // dt.align() * dt.align()
            pad = Member(f"__unknown{k_}", dt, off)
            pad.unnamed = True
            members.append(pad)
            off += dt.size
    t.members = members
    al = t.align()
    t.size = max(4, (off + al - 1) // al * al)
    _assign_ids(prj, rng, t, used_ids, predefined=predefined, edge=ctl_at >= 0 and rng.random() < 0.6)
    return t


def generate_project(rng, size="small", fw=None, micro800=False):
    """size: 'small' (fast open) | 'medium' | 'large'"""
    prj = Project()
    prj.micro800 = micro800
    prj.fw_major = fw if fw is not None else rng.choice([16, 17, 18, 19, 20, 21, 24, 32])
    prj.name = _name(rng, set(), rng.choice([1, 5, 12, 20]))
    used_ids = {"template": set(), "handle": set(), "instance": set()}
    # the names of the elementary types are reserved words in a controller: no user-defined type is called INT (a random three-letter
    # name hit exactly that once, and the request generator - which asks "is this an integer?" by type name - addressed bit 63 of it)
    used_names = {n_.lower() for n_ in ATOMS} | {"bool", "byte", "word", "lword", "time", "date", "string"}
    ntypes = {"small": rng.randint(1, 4), "medium": rng.randint(3, 8), "large": rng.randint(6, 14)}[size]
    pool = []
    # string types of assorted capacities (builtin STRING is 82)
    for cap in rng.sample([1, 2, 3, 5, 8, 20, 40, 82, 83, 100, 255, 256, 480, 500, 1000, 4100], rng.randint(1, 3 if size == "small" else 5)):
        nm = "STRING" if cap == 82 else f"STR{cap}" if rng.random() < 0.7 else _name(rng, used_names, 8)
        if nm in prj.types:
            continue
        st_ = make_string_type(prj, rng, nm, cap, used_ids)
        pool.append(st_)
        if nm == "STRING" and rng.random() < 0.5:
            # the builtin STRING as real controllers report it: template name ASCIISTRING82, predefined-range template id 0xFCE
            st_.template_name = "ASCIISTRING82"
            if 0xFCE not in used_ids["template"] and rng.random() < 0.7:
                del prj.by_template[st_.template_id]
                used_ids["template"].discard(st_.template_id)
                st_.template_id = 0xFCE
                used_ids["template"].add(0xFCE)
                prj.by_template[0xFCE] = st_
    for i in range(ntypes):
        nm = _name(rng, used_names, rng.choice([3, 8, 15, 24, 40]))
        depth = rng.choice([0, 1, 2, 3])
        usable = [t for t in pool if _depth(t) < depth and t.size <= 600]
        pool.append(make_udt(prj, rng, nm, usable, used_ids, depth, max_members=rng.choice([3, 6, 12])))

    def new_instance():
        while True:
            r = rng.random()
            iid = rng.randrange(1, 256) if r < 0.08 else rng.randrange(256, 65536) if r < 0.9 else rng.randrange(65536, 1 << 22)
            if iid not in used_ids["instance"]:
                used_ids["instance"].add(iid)
                return iid

    def new_tag(scope_names, program=None):
        nm = _name(rng, scope_names)
        if rng.random() < 0.05 and len(nm) < 40 and ("_" + nm).lower() not in scope_names:
            nm = "_" + nm      # a user tag may begin with one underscore (Micro800 embedded I/O: _IO_EM_DO_00); two make a system symbol
            scope_names.add(nm.lower())
        r = rng.random()
        if r < 0.45:
            dt = ATOM_TYPES[rng.choice(["BOOL", "SINT", "INT", "DINT", "DINT", "LINT", "REAL", "LREAL", "USINT", "UINT", "UDINT", "ULINT"])]
        elif r < 0.55:
            dt = ATOM_TYPES["DWORD"]
        else:
            dt = rng.choice(pool)
        dims = ()
        if dt.name == "DWORD":
            dims = (rng.choice([1, 1, 2, 3, 4, 8, 33]),)
        elif rng.random() < 0.45 and dt.name != "BOOL":
            nd = rng.choice([1, 1, 1, 2, 3])
            budget = max(1, {"small": 6000, "medium": 9000, "large": 12000}[size] // max(dt.size, 1))
            dims = []
            for _ in range(nd):
                d = rng.choice([1, 2, 3, 4, 5, 7, 10, 16, 33, 100, 125, 126, 500, 1000, 2000, 4000])
                d = max(1, min(d, budget))
                budget = max(1, budget // d)
                dims.append(d)
            dims = tuple(dims)
        t = Tag(nm, dt, dims, instance_id=new_instance(), program=program, access=rng.choice([0, 0, 0, 2, 3]))
        t.attr3, t.attr5 = rng.getrandbits(32), rng.getrandbits(32)
        t.attr6 = (rng.getrandbits(32) | BASE_TAG_BIT)
        if rng.random() < 0.1:
            t.alias = True
            t.kind = "alias"
            t.attr6 &= ~BASE_TAG_BIT
        if dt.name == "BOOL":
            t.bool_bit = rng.randrange(8)
        t.data = bytearray(dt.size * t.elements)
        return t

    ntags = {"small": rng.randint(3, 10), "medium": rng.randint(10, 30), "large": rng.randint(30, 80)}[size]
    scope = set()
    syms = [new_tag(scope) for _ in range(ntags)]
    # system / module symbols the upload must filter (module I/O tags are kept)
    if not micro800:
        for i in range(rng.randint(0, 3)):
            pn = _name(rng, scope, rng.choice([3, 11, 12, 20]))
            if rng.random() < 0.15:   # program names that begin like the scope prefix itself ("Program:Program1")
                pn2 = rng.choice(["Program1", "ProgramA", "Program", "Programs_x", "program2", "Prog"])
                if pn2.lower() not in scope and pn2.lower() not in {x.lower() for x in prj.programs}:
                    scope.add(pn2.lower())
                    pn = pn2
            pinst = new_instance()
            pscope = set()
            ptags = [new_tag(pscope, program=pn) for _ in range(rng.randint(0, 5))]
            routines = []
            for _ in range(rng.randint(0, 3)):
                rt_ = Tag("Routine:" + _name(rng, pscope, 8), ATOM_TYPES["DINT"], (), instance_id=new_instance(), program=pn, kind="routine")
                rt_.attr6 = rng.getrandbits(32)
                routines.append(rt_)
            allsyms = ptags + routines
            if rng.random() < 0.6:
                # every program has its own symbol class: instance ids are unique within a scope, not across scopes - half of this
                # program's symbols get an id that a controller-scoped symbol also has
                ctrl_ids, taken = [x.instance_id for x in syms], set()
                for s_ in allsyms:
                    cand = rng.choice(ctrl_ids) if ctrl_ids and rng.random() < 0.5 else None
                    if cand is not None and cand not in taken:
                        s_.instance_id = cand
                    taken.add(s_.instance_id)
            rng.shuffle(allsyms)
            prj.programs[pn] = {"instance_id": pinst, "routines": [r.name[len("Routine:"):] for r in sorted(routines, key=lambda x: x.instance_id)],
                                "symbols": sorted(allsyms, key=lambda x: x.instance_id)}
            ps = Tag("Program:" + pn, ATOM_TYPES["DINT"], (), instance_id=pinst, kind="program")
            ps.attr6 = rng.getrandbits(32)
            syms.append(ps)
        for i in range(rng.randint(0, 2)):
            tn = _name(rng, scope, 8)
            ts = Tag("Task:" + tn, ATOM_TYPES["DINT"], (), instance_id=new_instance(), kind="task")
            prj.tasks[tn] = ts.instance_id
            syms.append(ts)
        for i in range(rng.randint(0, 2)):
            syms.append(Tag(rng.choice(["Map:", "Cxn:"]) + _name(rng, scope, 8), ATOM_TYPES["DINT"], (), instance_id=new_instance(), kind="map"))
        for i in range(rng.randint(0, 2)):
            s = new_tag(scope)
            s.name = "__" + s.name
            s.kind = "hidden"
            syms.append(s)
        for i in range(rng.randint(0, 2)):
            # other system symbols: a user tag name cannot contain ':' - only module-defined tags (":I" ":O" ":C" ":S") do; any other
            # colon-named symbol is the controller's own (kept apart from "map" so that the census shows them)
            s = new_tag(scope)
            s.name = rng.choice(["Trend", "Axis", "Msg", "Grp", "Wdg"]) + ":" + rng.choice(["x", "q7", "main", "Pump1", "a_b"]) + rng.choice(["", "", ":data"])
            if any(x.name == s.name for x in syms):
                continue
            s.kind = "map"
            syms.append(s)
        for i in range(rng.randint(0, 2)):
            s = new_tag(scope)
            s.kind = "system-bit"
            syms.append(s)
        for i in range(rng.randint(0, 3)):
            s = new_tag(scope)
            # (a module may be called HeatMap or Plant_Cxn: its tags are module tags, not the controller's "Map:" / "Cxn:" symbols)
            mod = rng.choice(["Local", "Local", _name(rng, scope, 6), _name(rng, scope, 6), _name(rng, scope, 4) + rng.choice(["Map", "Cxn", "_Task", "Program"])])
            r_ = rng.random()
            if r_ < 0.6:
                s.name = f"{mod}:{rng.randrange(1, 17)}:{rng.choice('IOCS')}"
            elif r_ < 0.8:
                s.name = f"{mod}:{rng.choice('IOCS')}"
            elif r_ < 0.9:   # rarer spellings of module-defined tags: non-numeric middle part, numbered connection
                s.name = f"{mod}:{_name(rng, set(), 4)}:{rng.choice('IOCS')}"
            else:
                s.name = f"{mod}:{rng.randrange(1, 17)}:{rng.choice('IOCS')}{rng.randrange(1, 4)}"
            if any(x.name == s.name for x in syms):
                continue
            s.kind = "module"
            s.alias, s.attr6 = False, s.attr6 | BASE_TAG_BIT
            syms.append(s)
    prj.symbols = sorted(syms, key=lambda x: x.instance_id)
    randomize_memory(prj, rng)
    return prj


def _depth(t):
    if t.kind != "struct":
        return 0
    return 1 + max([0] + [_depth(m.dtype) for m in t.members])


def randomize_memory(prj, rng):
    for t in prj.user_tags():
        n = len(t.data)
        r = rng.random()
        if r < 0.1:
            t.data[:] = bytes(n)
        elif r < 0.2:
            t.data[:] = b"\xff" * n
        elif r < 0.38:
            # values at the edges of their types, 4 bytes at a time: 0, 1, -1, INT_MIN / -0.0, INT_MAX, +-infinity, NaN, the smallest
            # denormal, 1.0, one byte set, "true" as 0xFF / 0x02 - and neighbours that are equal (runs of the same word)
            words_ = [0, 0, 1, 0xFFFFFFFF, 0x80000000, 0x7FFFFFFF, 0x7F800000, 0xFF800000, 0x7FC00000, 0x00000001, 0x3F800000, 0x000000FF, 0xFF000000,
                      0x00008000, 0x00010000, 0x02020202, 0x20202020, 0x00270022, 0x3B3B3B3B]
            out_ = bytearray()
            while len(out_) < n:
                w_ = rng.choice(words_).to_bytes(4, "little")
                out_ += w_ * rng.choice([1, 1, 2, 3])
            t.data[:] = bytes(out_[:n])
        else:
            t.data[:] = rng.randbytes(n) if hasattr(rng, "randbytes") else bytes(rng.getrandbits(8) for _ in range(n))
        if t.dtype.name == "BOOL":
            t.data[:] = bytes([rng.choice([0, 0, 1, 0xFF, rng.randrange(1, 256)])])
        _fix_strings(t.dtype, t.data, 0, t.elements, rng)


def _fix_strings(dt, data, base, count, rng):
    """string LEN fields mostly within capacity (95 %), so that values are meaningful"""
    if dt.kind == "string":
        for i in range(count):
            o = base + i * dt.size
            ln = rng.randint(0, dt.capacity) if rng.random() < 0.96 else rng.choice([dt.capacity, 0, dt.capacity + 1, dt.capacity + 2, dt.capacity + 3])
            data[o:o + 4] = ln.to_bytes(4, "little")
    elif dt.kind == "struct":
        for i in range(count):
            o = base + i * dt.size
            for m in dt.members:
                if not m.is_bit and m.dtype.is_struct:
                    _fix_strings(m.dtype, data, o + m.offset, m.array_len or 1, rng)


# -------------------------------------------------------------------------------------------------------------------------
# addressing: documented request syntax -> location
# -------------------------------------------------------------------------------------------------------------------------
class Loc:
    """what a request path denotes inside a tag's memory"""
    __slots__ = ("tag", "dtype", "offset", "avail", "bit", "is_bool_member", "host_offset")

    def __init__(self, tag, dtype, offset, avail, bit=None, is_bool_member=False):
        self.tag, self.dtype, self.offset, self.avail, self.bit, self.is_bool_member = tag, dtype, offset, avail, bit, is_bool_member

    def bytes_for(self, count):
        return self.dtype.size * count


def walk(prj, steps, program=None, tag=None):
    """steps: list of ('name', str) / ('index', [i,j,k]) as decoded from a request path (after the base tag).
    -> Loc or an error code string"""
    dtype, off = tag.dtype, 0
    dims = tag.dims
    avail = tag.elements if dims else 1
    i = 0
    cur_is_array = bool(dims)
    bit = None
    boolmember = False
    while i < len(steps):
        kind, val = steps[i]
        if kind == "index":
            if not cur_is_array or boolmember:
                return "not-an-array"
            if len(val) != len(dims):
                return "wrong-dimension-count"
            lin = 0
            for d, x in zip(dims, val):
                if x >= d:
                    return "index-out-of-range"
                lin = lin * d + x
            off += lin * dtype.size
            avail = avail - lin
            cur_is_array = False
            dims = ()
            # a following index is not possible; a following name must address a member of the element
            i += 1
            # keep avail: elements remaining from here (for {n} counts)
            if i < len(steps) and steps[i][0] == "name":
                avail_after = 1
            continue
        # name
        if boolmember or dtype.kind == "atomic":
            return "member-of-atomic"
        if dtype.kind == "string":
            m = dtype.member(val)
        else:
            m = dtype.member(val)
        if m is None:
            return "unknown-member"
        if m.is_bit:
            off_m = off + m.offset
            dtype, off, avail, bit, boolmember = ATOM_TYPES["BOOL"], off_m, 1, m.bit, True
            cur_is_array, dims = False, ()
        else:
            off += m.offset
            dtype = m.dtype
            if m.array_len:
                cur_is_array, dims, avail = True, (m.array_len,), m.array_len
            else:
                cur_is_array, dims, avail = False, (), 1
        i += 1
    return Loc(tag, dtype, off, avail, bit=bit, is_bool_member=boolmember)


# -------------------------------------------------------------------------------------------------------------------------
# hand-built projects (size sweeps, brim-filling request mixes)
# -------------------------------------------------------------------------------------------------------------------------
class ProjectBuilder:
    def __init__(self, rng, fw=32, micro800=False):
        self.rng = rng
        self.prj = Project()
        self.prj.fw_major, self.prj.micro800 = fw, micro800
        self.prj.name = "sweep"
        self.used = {"template": set(), "handle": set(), "instance": set()}
        self.names = set()

    def instance(self, small=None):
        rng = self.rng
        while True:
            iid = rng.randrange(1, 256) if small is True else rng.randrange(256, 65536) if small is None else rng.randrange(65536, 1 << 22)
            if iid not in self.used["instance"]:
                self.used["instance"].add(iid)
                return iid

    def string_type(self, name, cap):
        return make_string_type(self.prj, self.rng, name, cap, self.used)

    def udt(self, name, fields):
        """fields: list of (name, atom name | DType, array_len) ; BOOLs given as (name, 'BOOL', 0) are packed on hidden hosts"""
        t = DType(name, "struct")
        off, host, bits, hc = 0, None, 0, 0
        for fname, ft, arr in fields:
            dt = ATOM_TYPES[ft] if isinstance(ft, str) else ft
            if dt.name == "BOOL" and not arr:
                if host is None or bits == 8:
                    host = Member(f"ZZZZZZZZZZ{name[:10]}{hc}", ATOM_TYPES["SINT"], off)
                    hc += 1
                    bits = 0
                    t.members.append(host)
                    off += 1
                t.members.append(Member(fname, ATOM_TYPES["BOOL"], host.offset, bit=bits))
                bits += 1
                continue
            host = None
            al = max(4 if arr else dt.align(), dt.align())
            off = (off + al - 1) // al * al
            t.members.append(Member(fname, dt, off, array_len=arr))
            off += dt.size * (arr or 1)
        al = t.align()
        t.size = max(4, (off + al - 1) // al * al)
        _assign_ids(self.prj, self.rng, t, self.used)
        return t

    def tag(self, name, dtype, dims=(), program=None, small_instance=None):
        dt = ATOM_TYPES[dtype] if isinstance(dtype, str) else dtype
        t = Tag(name, dt, dims, instance_id=self.instance(small_instance), program=program)
        t.attr3, t.attr5 = self.rng.getrandbits(32), self.rng.getrandbits(32)
        t.attr6 = self.rng.getrandbits(32) | BASE_TAG_BIT
        t.data = bytearray(dt.size * t.elements)
        if program:
            p = self.prj.programs.setdefault(program, {"instance_id": self.instance(), "routines": [], "symbols": []})
            p["symbols"].append(t)
            p["symbols"].sort(key=lambda x: x.instance_id)
            if not any(s.name == "Program:" + program for s in self.prj.symbols):
                ps = Tag("Program:" + program, ATOM_TYPES["DINT"], (), instance_id=p["instance_id"], kind="program")
                self.prj.symbols.append(ps)
        else:
            self.prj.symbols.append(t)
        self.prj.symbols.sort(key=lambda x: x.instance_id)
        return t

    def done(self):
        randomize_memory(self.prj, self.rng)
        return self.prj


def add_array_tag(prj, rng, name, atom, n):
    """one more controller-scoped user tag `name: atom[n]` with a random memory image (before the driver uploads the tag list)"""
    used = {t.instance_id for t in prj.symbols} | {t.instance_id for p in prj.programs.values() for t in p["symbols"]}
    while True:
        iid = rng.randrange(256, 65536)
        if iid not in used:
            break
    t = Tag(name, ATOM_TYPES[atom], (n,), instance_id=iid)
    t.attr3, t.attr5 = rng.getrandbits(32), rng.getrandbits(32)
    t.attr6 = rng.getrandbits(32) | BASE_TAG_BIT
    t.data = bytearray(rng.getrandbits(8) for _ in range(ATOM_TYPES[atom].size * n))
    prj.symbols.append(t)
    prj.symbols.sort(key=lambda x: x.instance_id)
    return t


def _builder_for(prj, rng):
    """a ProjectBuilder that adds to an existing project (ids already in use are respected)"""
    pb = ProjectBuilder.__new__(ProjectBuilder)
    pb.rng, pb.prj, pb.names = rng, prj, set()
    pb.used = {"template": set(prj.by_template), "handle": {t.handle for t in prj.types.values() if t.handle is not None},
               "instance": {t.instance_id for t in prj.symbols} | {t.instance_id for p in prj.programs.values() for t in p["symbols"]}
               | {p["instance_id"] for p in prj.programs.values() if p.get("instance_id") is not None}}
    return pb


def add_struct_tag(prj, rng, type_name, fields, tag_name, dims=()):
    """one more UDT (fields as for ProjectBuilder.udt) and a controller-scoped tag of it, with a random memory image"""
    pb = _builder_for(prj, rng)
    t = pb.udt(type_name, fields)
    tag = pb.tag(tag_name, t, dims)
    tag.data = bytearray(rng.getrandbits(8) for _ in range(len(tag.data)))
    return t, tag


def add_predefined_tag(prj, rng, type_name, tag_name, bare=True):
    """a TIMER-shaped predefined type (status word CTL / Control that is not user-visible, EN / TT / DN aliasing its top bits, PRE and
    ACC), template id in the predefined range, on firmware >= 32 in the bare-name template form when `bare`; and one tag of it"""
    pb = _builder_for(prj, rng)
    t = DType(type_name, "struct")
    cname = rng.choice(["CTL", "Control"])
    t.members = [Member(cname, ATOM_TYPES["DINT"], 0), Member("PRE", ATOM_TYPES["DINT"], 4), Member("ACC", ATOM_TYPES["DINT"], 8),
                 Member("EN", ATOM_TYPES["BOOL"], 3, bit=7), Member("TT", ATOM_TYPES["BOOL"], 3, bit=6), Member("DN", ATOM_TYPES["BOOL"], 3, bit=5)]
    t.size = 12
    t.bare_name = bool(bare and prj.fw_major >= 32)
    _assign_ids(prj, rng, t, pb.used, predefined=True)
    tag = pb.tag(tag_name, t, (), small_instance=True if rng.random() < 0.3 else None)
    tag.data = bytearray(rng.getrandbits(8) for _ in range(len(tag.data)))
    return t, tag


def add_deep_tag(prj, rng, depth, tag_name, stem="Deep"):
    """a family of `depth` UDTs nested in each other (level k holds one member, or a small array, of level k-1) and ONE tag of the
    outermost type: the driver meets the whole chain unresolved when it uploads that tag.  Nesting depth has no limit in the property."""
    pb = _builder_for(prj, rng)
    t = pb.udt(f"{stem}0_q", [("leaf", rng.choice(["DINT", "INT", "REAL"]), 0), ("flag", "BOOL", 0)])
    for k in range(1, depth):
        fields = [("lvl", rng.choice(["SINT", "INT", "DINT"]), 0), ("inner", t, rng.choice([0, 0, 2]) if k < 6 else 0)]
        if rng.random() < 0.5:
            fields.reverse()
        t = pb.udt(f"{stem}{k}_q", fields)
    tag = pb.tag(tag_name, t, (), small_instance=True if rng.random() < 0.5 else None)
    tag.data = bytearray(rng.getrandbits(8) for _ in range(len(tag.data)))
    return t, tag


def add_string_tag(prj, rng, type_name, capacity, tag_name):
    """one more string type of the given capacity and a controller-scoped tag of it (LEN within the capacity)"""
    pb = _builder_for(prj, rng)
    t = pb.string_type(type_name, capacity)
    tag = pb.tag(tag_name, t, ())
    n = rng.randrange(0, capacity + 1)
    tag.data[:4] = n.to_bytes(4, "little")
    tag.data[4:4 + n] = bytes(rng.randrange(32, 127) for _ in range(n))
    return t, tag


def redefine_type(prj, rng):
    """Controller program edited and re-downloaded: a UDT that is not nested in another type gets a new member list
    under the SAME template instance id (new structure handle).  Returns the type or None."""
    nested = {m.dtype.name for t in prj.types.values() for m in t.members if m.dtype.is_struct}
    cands = [t for t in prj.types.values() if t.kind == "struct" and t.name not in nested]
    if not cands:
        return None
    t = rng.choice(sorted(cands, key=lambda x: x.name))
    scratch = Project()
    used = {"template": set(), "handle": {x.handle for x in prj.types.values()}, "instance": set()}
    pool = [x for x in prj.types.values() if x.kind == "string" and x.size <= 200]
    while True:
        new = make_udt(scratch, rng, t.name, pool, used, 1, max_members=rng.choice([2, 5, 9]))
        if not new.predefined:  # the new member list is that of an ordinary UDT (no status-word form)
            break
    if not 0x100 <= t.template_id <= 0xEFF:
        # the type keeps its (predefined-range) template id: "CTL"/"Control" members of predefined types are hidden by design
        # and are not generated (ASSUMPTIONS of C05)
        for m in new.members:
            if m.name in ("CTL", "Control"):
                m.name += "_m"
    t.members, t.size, t.handle = new.members, new.size, new.handle
    t._desc = None
    for tag in prj.user_tags():
        if tag.dtype is t:
            tag.data = bytearray(t.size * tag.elements)
    randomize_memory(prj, rng)
    return t


# -------------------------------------------------------------------------------------------------------------------------
# a real controller's layouts: rebuilt from the repository's tests/offline/all_tags.json (a tags_json dump)
# -------------------------------------------------------------------------------------------------------------------------
def load_fixture(path, rng, fw=32):
    """Project with the tag list and template layouts of the real controller the fixture was dumped from (module-defined
    types whose BOOL members alias bits of visible members, predefined CONTROL, nested UDTs, STRING/STRING20/STRING480,
    1-3 dim arrays, BOOL arrays, program-scoped tags).  Memory is randomised; template ids of nested types are assigned."""
    import json
    with open(path) as fh:
        dump = json.load(fh)
    prj = Project()
    prj.fw_major = fw
    prj.name = "pycomm3_demo"
    used = {"template": set(), "handle": set(), "instance": set()}
    known_ids = {}
    for t in dump.values():
        if t.get("tag_type") == "struct" and "template_instance_id" in t:
            known_ids[t["data_type"]["name"]] = t["template_instance_id"]

    def build(dt):
        name = dt["name"]
        if name in prj.types:
            return prj.types[name]
        t = DType(name, "string" if dt.get("string") else "struct")
        t.size = dt["template"]["structure_size"]
        if t.kind == "string":
            t.capacity = dt["string"]
        for mname, m in dt["internal_tags"].items():
            if m["data_type_name"] == "BOOL" and "bit" in m:
                t.members.append(Member(mname, ATOM_TYPES["BOOL"], m["offset"], bit=m["bit"]))
            elif m["tag_type"] == "atomic":
                t.members.append(Member(mname, ATOM_TYPES[m["data_type_name"]], m["offset"], array_len=m.get("array") or 0))
            else:
                t.members.append(Member(mname, build(m["data_type"]), m["offset"], array_len=m.get("array") or 0))
        tid = known_ids.get(name)
        if tid is None or tid in used["template"] or tid >= 0xF00 or tid < 0x100:
            while True:
                tid = rng.randrange(0x100, 0xF00)
                if tid not in used["template"] and tid not in known_ids.values():
                    break
        used["template"].add(tid)
        h = dt["template"]["structure_handle"]
        while h in used["handle"]:
            h = rng.randrange(1, 0x10000)
        used["handle"].add(h)
        t.template_id, t.handle = tid, h
        # BOOL members whose host byte lies inside a visible non-BOOL member (module-defined types)
        spans = [(m.offset, m.offset + m.nbytes()) for m in t.members if not m.is_bit and not m.name.startswith(HIDDEN_PREFIXES)]
        t.overlapped = any(any(lo <= m.offset < hi for lo, hi in spans) for m in t.members if m.is_bit)
        prj.types[name] = t
        prj.by_template[tid] = t
        return t

    acc = {"Read/Write": 0, "Read Only": 2, "None": 3}
    for full, t in dump.items():
        program, name = None, full
        if full.startswith("Program:"):
            program, name = full[len("Program:"):].split(".", 1)
        dt = build(t["data_type"]) if t["tag_type"] == "struct" else ATOM_TYPES[t["data_type_name"]]
        dims = tuple(t["dimensions"][: t["dim"]])
        iid = t["instance_id"]
        while iid in used["instance"]:
            iid += 1
        used["instance"].add(iid)
        kind = "module" if (":" in name) else ("alias" if t.get("alias") else "user")
        tag = Tag(name, dt, dims, instance_id=iid, program=program, alias=bool(t.get("alias")), access=acc.get(t.get("external_access"), 0), kind=kind)
        tag.attr3, tag.attr5 = t.get("symbol_address", 0), t.get("symbol_object_address", 0)
        tag.attr6 = (t.get("software_control", 0) | BASE_TAG_BIT) if not tag.alias else (t.get("software_control", 0) & ~BASE_TAG_BIT)
        tag.data = bytearray(dt.size * tag.elements)
        if program:
            p = prj.programs.setdefault(program, {"instance_id": None, "routines": ["MainRoutine"], "symbols": []})
            p["symbols"].append(tag)
        else:
            prj.symbols.append(tag)
    for pn, p in prj.programs.items():
        while True:
            iid = rng.randrange(256, 65536)
            if iid not in used["instance"]:
                used["instance"].add(iid)
                break
        p["instance_id"] = iid
        rt_ = Tag("Routine:MainRoutine", ATOM_TYPES["DINT"], (), instance_id=max(used["instance"]) + 1, program=pn, kind="routine")
        used["instance"].add(rt_.instance_id)
        p["symbols"].append(rt_)
        p["symbols"].sort(key=lambda x: x.instance_id)
        prj.symbols.append(Tag("Program:" + pn, ATOM_TYPES["DINT"], (), instance_id=iid, kind="program"))
    ts = Tag("Task:MainTask", ATOM_TYPES["DINT"], (), instance_id=max(used["instance"]) + 7, kind="task")
    prj.tasks["MainTask"] = ts.instance_id
    prj.symbols.append(ts)
    prj.symbols.sort(key=lambda x: x.instance_id)
    randomize_memory(prj, rng)
    return prj
