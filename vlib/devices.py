"""Concrete devices for the reference target: a controller shell (program name, wall clock) that the
Logix device extends, and identity generators."""
from . import reftarget as rt


class ControllerDevice(rt.Device):
    """Program-name object 0x64 and WallClockTime object 0x8B on top of Device."""

    def __init__(self, identity, rng, log, program_name="pycomm3_demo", clock_us=1_600_000_000_000_000):
        super().__init__(identity, rng, log)
        self.program_name = program_name
        self.clock_us = clock_us
        self.name_tail = bytes(rng.randrange(256) for _ in range(rng.choice([0, 0, 4, 12])))

    def serve(self, rq):
        if rq.segs and rq.segs[0][:2] == ("logical", "class"):
            cls, inst = rq.logical("class"), rq.logical("instance")
            if cls == 0x64:
                if inst != 1:
                    return rt.ST_PATH_UNKNOWN, (), b""
                if rq.service != 0x01:
                    return rt.ST_NOT_SUPPORTED, (), b""
                nb = self.program_name.encode("iso-8859-1")
                return rt.ST_OK, (), len(nb).to_bytes(2, "little") + nb + self.name_tail
            if cls == 0x8B:
                return self.wall_clock(rq, inst)
        return super().serve(rq)

    def wall_clock(self, rq, inst):
        if inst != 1:
            return rt.ST_PATH_UNKNOWN, (), b""
        d = rq.data
        if rq.service == 0x03:  # Get_Attribute_List
            if len(d) < 2:
                return rt.ST_NOT_ENOUGH, (), b""
            n = int.from_bytes(d[:2], "little")
            if len(d) != 2 + 2 * n:
                return (rt.ST_NOT_ENOUGH if len(d) < 2 + 2 * n else rt.ST_TOO_MUCH), (), b""
            out = n.to_bytes(2, "little")
            bad = False
            for i in range(n):
                a = int.from_bytes(d[2 + 2 * i:4 + 2 * i], "little")
                if a in (0x06, 0x0B):
                    out += a.to_bytes(2, "little") + b"\x00\x00" + self.clock_us.to_bytes(8, "little")
                else:
                    out += a.to_bytes(2, "little") + (0x14).to_bytes(2, "little")
                    bad = True
            return (rt.ST_ATTR_LIST if bad else rt.ST_OK), (), out
        if rq.service == 0x04:  # Set_Attribute_List
            if len(d) < 2:
                return rt.ST_NOT_ENOUGH, (), b""
            n = int.from_bytes(d[:2], "little")
            o = 2
            out = n.to_bytes(2, "little")
            newclock = None
            for i in range(n):
                if o + 2 > len(d):
                    return rt.ST_NOT_ENOUGH, (), b""
                a = int.from_bytes(d[o:o + 2], "little")
                o += 2
                if a in (0x06, 0x0B):
                    if o + 8 > len(d):
                        return rt.ST_NOT_ENOUGH, (), b""
                    newclock = int.from_bytes(d[o:o + 8], "little")
                    o += 8
                    out += a.to_bytes(2, "little") + b"\x00\x00"
                else:
                    return rt.ST_ATTR_LIST, (), out + a.to_bytes(2, "little") + (0x14).to_bytes(2, "little")
            if o != len(d):
                return rt.ST_TOO_MUCH, (), b""
            if newclock is not None:
                self.clock_us = newclock
            return rt.ST_OK, (), out
        return rt.ST_NOT_SUPPORTED, (), b""


def random_identity(rng, known_vendor_ids=(), known_type_ids=(), micro800=False, major=None):
    """identity over the whole domain (known and unknown ids, boundary serials, Latin-1 names of length 0..255)"""
    r = rng.random()
    vendor = rng.choice(list(known_vendor_ids)) if known_vendor_ids and r < 0.5 else rng.choice([0, 1, 2, 255, 256, 257, 65535, rng.randrange(65536)])
    r = rng.random()
    ptype = rng.choice(list(known_type_ids)) if known_type_ids and r < 0.5 else rng.choice([0, 1, 0x0E, 0x10E, 0x20C, 255, 256, 65535, rng.randrange(65536)])
    serial = rng.choice([0, 1, 0xF, 0xFF, 0xABCDEF, 0x0ABCDEF0, 0x10000000, 0x7FFFFFFF, 0x80000000, 0xFFFFFFFF, rng.getrandbits(32), rng.getrandbits(rng.choice([4, 12, 20, 28]))])
    n = rng.choice([0, 1, 2, 7, 20, 32, 33, 254, 255, rng.randrange(256)])
    if micro800:
        base = "2080-LC50-48QWB"
        name = base + "".join(chr(rng.randrange(0x20, 0x7F)) for _ in range(rng.choice([0, 3, 10])))
    else:
        name = "".join(chr(rng.choice([rng.randrange(0x20, 0x7F), rng.randrange(0xA0, 0x100), 0x20, 0x09, 0xA0, rng.randrange(256)])) for _ in range(n))
        if rng.random() < 0.15 and n >= 2:
            name = " " + name[1:-1] + " "
        if name.startswith("2080"):
            name = "X" + name[1:]
    return rt.Identity(vendor=vendor, product_type=ptype, product_code=rng.choice([0, 1, 255, 256, 65535, rng.randrange(65536)]),
                       major=major if major is not None else rng.choice([0, 1, 16, 17, 18, 19, 20, 21, 32, 255, rng.randrange(256)]),
                       minor=rng.choice([0, 1, 11, 255, rng.randrange(256)]),
                       status=bytes([rng.choice([0x60, 0x70, 0x30, rng.randrange(256)]), rng.choice([0x10, 0x11, 0x30, 0x31, 0x20, rng.randrange(256)])]),
                       serial=serial, name=name, state=rng.choice([0, 1, 2, 3, 4, 5, 6, 254, 255, rng.randrange(256)]),
                       ip=".".join(str(rng.choice([0, 1, 10, 192, 255, rng.randrange(256)])) for _ in range(4)))
