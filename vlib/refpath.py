"""Reference recogniser / generator for the documented connection-path grammar
(docs/getting_started.rst "Creating a Driver"):  host[:port] (sep port sep link)*   sep in / \\ ,
plus the bare-address and address/slot shortcuts of LogixDriver / SLCDriver (auto_slot)."""
import re

from . import refepath as rp

ALIASES = dict(rp.PORT_ALIASES)
SEPS = "/\\,"
_HOST_RE = re.compile(r"^(?=.{1,253}$)([A-Za-z0-9]([A-Za-z0-9-]{0,61}[A-Za-z0-9])?)(\.[A-Za-z0-9]([A-Za-z0-9-]{0,61}[A-Za-z0-9])?)*$")


def is_ipv4(s):
    parts = s.split(".")
    if len(parts) != 4:
        return False
    for x in parts:
        if not (x.isascii() and x.isdigit()) or len(x) > 3 or int(x) > 255:
            return False
    return True


def ipv4_has_leading_zero(s):
    return any(len(x) > 1 and x[0] == "0" for x in s.split("."))


def classify(s, auto_slot):
    """-> ('ok', host, port|None, hops)  hops: list of (port_number, slot_int | ip_str)
       | ('reject', reason)     string is in one of the rejection classes the property lists
       | ('dontcare', reason)   outside both"""
    if not s.isascii():
        return ("dontcare", "non-ascii")
    toks = re.split(r"[/\\,]", s)
    hostport, route = toks[0], toks[1:]
    port = None
    if ":" in hostport:
        host, port_s = hostport.split(":", 1)
        if not host:
            return ("dontcare", "empty host")
        if not (port_s.isdigit()):
            return ("reject", "invalid TCP port")
        port = int(port_s)
        if port < 1 or port > 65534:
            return ("reject", "invalid TCP port")
        if len(port_s) > 1 and port_s[0] == "0":
            return ("dontcare", "port with leading zero")
    else:
        host = hostport
    if not host:
        return ("dontcare", "empty host")
    if not (is_ipv4(host) or _HOST_RE.match(host)):
        return ("dontcare", "unusual host")
    if is_ipv4(host) and ipv4_has_leading_zero(host):
        return ("dontcare", "host with leading zeros")
    if any(t == "" for t in route):
        if len(route) % 2 or True:
            return ("reject", "empty segment")
    if not route:
        return ("ok", host, port, [(1, 0)] if auto_slot else [])
    if len(route) == 1 and auto_slot:
        t = route[0]
        if t.isdigit():
            if len(t) > 1 and t[0] == "0":
                return ("dontcare", "slot with leading zero")
            if int(t) <= 255:
                return ("ok", host, port, [(1, int(t))])
            return ("reject", "link out of range")
        if is_ipv4(t):
            return ("dontcare", "address as slot shortcut")
        return ("reject", "link not a slot")
    if len(route) % 2:
        return ("reject", "odd number of route segments")
    hops = []
    verdict = None
    for i in range(0, len(route), 2):
        p, l = route[i], route[i + 1]
        if p in ALIASES:
            pn = ALIASES[p]
        elif p.isdigit():
            if len(p) > 1 and p[0] == "0":
                verdict = verdict or ("dontcare", "port with leading zero")
                pn = int(p)
            elif 1 <= int(p) <= 14:
                pn = int(p)
            else:
                verdict = verdict or ("dontcare", "numeric port outside 1..14")
                pn = int(p)
        elif p.lower() in ALIASES:
            verdict = verdict or ("dontcare", "upper-case alias")
            pn = ALIASES[p.lower()]
        else:
            return ("reject", "unknown port name")
        if l.isdigit():
            if len(l) > 1 and l[0] == "0":
                verdict = verdict or ("dontcare", "slot with leading zero")
                hops.append((pn, int(l)))
            elif int(l) <= 255:
                hops.append((pn, int(l)))
            else:
                return ("reject", "link out of range")
        elif is_ipv4(l):
            if ipv4_has_leading_zero(l):
                verdict = verdict or ("dontcare", "link address with leading zeros")
            hops.append((pn, l))
        else:
            return ("reject", "link neither slot nor dotted quad")
    if verdict:
        return verdict
    return ("ok", host, port, hops)


def route_bytes(hops, pad_after_size=False):
    body = b"".join(rp.build_port(p, l) for p, l in hops)
    return bytes([len(body) // 2]) + (b"\x00" if pad_after_size else b"") + body


def spell(rng, host, port, hops, auto_slot, force_long=False):
    """one random spelling of the route"""
    names = {}
    for a, n in ALIASES.items():
        names.setdefault(n, []).append(a)
    out = host + (f":{port}" if port is not None else "")
    if auto_slot and not force_long and len(hops) == 1 and hops[0][0] == 1 and isinstance(hops[0][1], int):
        r = rng.random()
        if hops[0][1] == 0 and r < 0.34:
            return out
        if r < 0.67:
            return out + rng.choice(SEPS) + str(hops[0][1])
    for p, l in hops:
        ptxt = rng.choice(names.get(p, []) + [str(p)])
        out += rng.choice(SEPS) + ptxt + rng.choice(SEPS) + str(l)
    return out


def gen_route(rng, max_hops=4):
    hops = []
    for _ in range(rng.randint(0, max_hops)):
        p = rng.choice([1, 1, 2, 2, 3, rng.randint(1, 14)])
        if rng.random() < 0.5:
            l = rng.choice([0, 1, 2, 9, 10, 16, 17, 99, 100, 254, 255, rng.randrange(256)])
        else:
            l = ".".join(str(rng.choice([0, 1, 9, 10, 99, 100, 172, 192, 255, rng.randrange(256)])) for _ in range(4))
        hops.append((p, l))
    return hops


def gen_host(rng):
    r = rng.random()
    if r < 0.7:
        return ".".join(str(rng.choice([1, 10, 100, 192, 168, 255, rng.randrange(256)])) for _ in range(4))
    # host names are handed to the resolver as given: letter case included ("yields the stated host")
    labels = ["plc", "line-4", "cell12", "a", "x9", "controller", "PLC-Line3", "Plant", "LOCAL", "Cell12B", "bp", "ENET", "Backplane"]
    return ".".join(rng.choice(labels) for _ in range(rng.randint(1, 3)))


def selftest():
    n = 0
    # the repository's own documented examples
    ok = classify("1.2.3.4/backplane/2/enet/6.7.8.9/backplane/0", False)
    assert ok == ("ok", "1.2.3.4", None, [(1, 2), (2, "6.7.8.9"), (1, 0)]); n += 1
    assert classify("10.10.30.100,bp,0", False) == ("ok", "10.10.30.100", None, [(1, 0)]); n += 1
    assert classify("10.20.30.100:4444", False) == ("ok", "10.20.30.100", 4444, []); n += 1
    assert classify("10.20.30.100", True) == ("ok", "10.20.30.100", None, [(1, 0)]); n += 1
    assert classify("10.20.30.100/1", True) == ("ok", "10.20.30.100", None, [(1, 1)]); n += 1
    assert classify(r"192.168.1.100\backplane\1\enet\10.11.12.13\bp\0", False)[3] == [(1, 1), (2, "10.11.12.13"), (1, 0)]; n += 1
    for bad in ["192.168.1.100/Z", "bp/0", "192.168.1.100/-1", "192.168.1.100/backplan/1", "192.168.1.100/backplane/1/10.11.12.13/bp/0",
                "192.168.1.100//bp/1", "192.168.1.100/", "192.168.1.100,bp,1,0", "192.168.1.100,", "192.168.1.100:abc",
                "192.168.1.100:/bp/0", "192.168.1.100:-123", "1.2.3.4:0", "1.2.3.4:65535", "1.2.3.4/bp/256", "1.2.3.4/enet/1.2.3"]:
        assert classify(bad, False)[0] == "reject", (bad, classify(bad, False)); n += 1
    assert route_bytes([(1, 0)]) == b"\x01\x01\x00"; n += 1
    assert route_bytes([(1, 1), (2, "10.11.12.13"), (1, 0)]) == b"\x09\x01\x01\x12\x0b10.11.12.13\x00\x01\x00"; n += 1
    return n
