"""Generates read/write requests in the documented LogixDriver syntax from a project model and computes, from
the target's memory, what each request denotes (expected value, type string, addressed byte range)."""
import struct

from . import refcodec as rc
from . import refproject as rpj


class Req:
    """One request.  kind: 'value' (count elements of dtype at offset), 'bit' (bit of an integer),
    'boolmember' (BOOL member of a structure), 'boolarray' (BOOL-array range: bit = first BOOL index)."""

    def __init__(self, text, tag, dtype, offset, count, explicit, kind="value", bit=None, avail=1, shape=""):
        self.text, self.tag, self.dtype, self.offset = text, tag, dtype, offset
        self.count, self.explicit, self.kind, self.bit, self.avail, self.shape = count, explicit, kind, bit, avail, shape
        self.label = "VALID"
        self.value = None        # for writes

    @property
    def name_without_count(self):
        return self.text.split("{")[0]

    @property
    def is_list(self):
        return self.explicit and self.count > 1

    def elem_desc(self):
        return self.dtype.desc()

    def desc(self):
        if self.kind in ("bit", "boolmember"):
            return ("bool",)
        if self.kind == "boolarray":
            return ("array", self.count, ("bool",)) if self.is_list else ("bool",)
        d = self.elem_desc()
        return ("array", self.count, d) if self.is_list else d

    def nbytes(self):
        if self.kind == "boolarray":
            first, last = self.bit // 32, (self.bit + self.count - 1) // 32
            return 4 * (last - first + 1)
        if self.kind in ("bit",):
            return self.dtype.size
        if self.kind == "boolmember":
            return 1
        return self.dtype.size * self.count

    def type_string(self):
        if self.kind in ("bit", "boolmember"):
            return "BOOL"
        if self.kind == "boolarray":
            return f"BOOL[{self.count}]" if self.is_list else "BOOL"
        nm = self.dtype.name
        return f"{nm}[{self.count}]" if self.count > 1 else nm

    def expected_value(self):
        data = bytes(self.tag.data)
        if self.kind == "bit":
            raw = int.from_bytes(data[self.offset:self.offset + self.dtype.size], "little")
            return bool(raw >> self.bit & 1)
        if self.kind == "boolmember":
            return bool(data[self.offset] >> self.bit & 1)
        if self.kind == "boolarray":
            bits = []
            for i in range(self.bit, self.bit + self.count):
                w = int.from_bytes(data[self.offset + 4 * (i // 32):self.offset + 4 * (i // 32) + 4], "little")
                bits.append(bool(w >> (i % 32) & 1))
            return bits if self.is_list else bits[0]
        if self.dtype.name == "BOOL":
            vals = [data[self.offset + i] != 0 for i in range(self.count)]
        else:
            vals, pos = [], self.offset
            d = self.elem_desc()
            for _ in range(self.count):
                v, pos = rc.decode(d, data, pos)
                vals.append(v)
        return vals if self.is_list else vals[0]

    def value_equal(self, got):
        want = self.expected_value()
        return rc.values_equal(self.desc(), want, got), want

    def byte_ranges(self):
        """(start, end) ranges of tag.data a write of this request may touch"""
        if self.kind == "boolarray":
            first = self.bit // 32
            return [(self.offset + 4 * first, self.offset + 4 * first + self.nbytes())]
        if self.kind == "bit":
            return [(self.offset + self.bit // 8, self.offset + self.bit // 8 + 1)]
        if self.kind == "boolmember":
            return [(self.offset, self.offset + 1)]
        return [(self.offset, self.offset + self.dtype.size * self.count)]


def _render_index(rng, idx):
    return "[" + ",".join(str(i) for i in idx) + "]"


def _pick_index(rng, dims):
    r = rng.random()
    if r < 0.25:
        return tuple(0 for _ in dims)
    if r < 0.45:
        return tuple(d - 1 for d in dims)
    return tuple(rng.randrange(d) for d in dims)


def _lin(dims, idx):
    lin = 0
    for d, x in zip(dims, idx):
        lin = lin * d + x
    return lin


def _pick_count(rng, avail, size, conn_size, allow_big=True):
    """element counts that hit the byte windows around the connection size"""
    opts = [1, 1, 2, 3, avail, avail, max(1, avail // 2)]
    for target in (conn_size - 60, conn_size - 30, conn_size - 12, conn_size - 8, conn_size - 4, conn_size, conn_size + 4, conn_size + 40, 2 * conn_size + 10):
        if allow_big and size:
            n = target // size
            for k in (n - 1, n, n + 1):
                if 1 <= k <= avail:
                    opts.append(k)
    return max(1, min(avail, rng.choice(opts)))


def gen_request(prj, rng, conn_size=4000, for_write=False, tag=None, want=None):
    """-> Req for an address that exists in the project (label VALID)"""
    tags = prj.user_tags()
    tag = tag or rng.choice(tags)
    text = tag.full_name
    dtype, off = tag.dtype, 0
    shape = []
    # ---- BOOL arrays (DWORD backed) -----------------------------------------------------------------------------
    if dtype.name == "DWORD" and tag.dims:
        nbools = 32 * tag.dims[0]
        r = rng.random()
        if r < 0.15 and not for_write:  # writing a BOOL array without an index is not a documented form
            return Req(text, tag, dtype, 0, 1, False, "boolarray", bit=0, avail=nbools, shape="boolarr")
        if for_write:
            if r < 0.6:
                i = rng.randrange(nbools)
                return Req(f"{text}[{i}]", tag, dtype, 0, 1, False, "boolarray", bit=i, avail=nbools - i, shape="boolarr[i]")
            w0 = rng.randrange(tag.dims[0])
            nw = rng.randint(1, tag.dims[0] - w0)
            txt = f"{text}{{{32 * nw}}}" if w0 == 0 and rng.random() < 0.5 else f"{text}[{32 * w0}]{{{32 * nw}}}"
            return Req(txt, tag, dtype, 0, 32 * nw, True, "boolarray", bit=32 * w0, avail=nbools - 32 * w0, shape="boolarr[a]{32k}")
        i = rng.choice([0, 1, 31, 32, 33, nbools - 1, rng.randrange(nbools)])
        i = min(i, nbools - 1)
        if r < 0.5:
            return Req(f"{text}[{i}]", tag, dtype, 0, 1, False, "boolarray", bit=i, avail=nbools - i, shape="boolarr[i]")
        n = rng.choice([1, 2, 5, 31, 32, 33, 64, nbools - i, rng.randint(1, nbools - i)])
        n = max(1, min(n, nbools - i))
        if r < 0.7 or i == 0 and rng.random() < 0.5:
            if rng.random() < 0.5:
                return Req(f"{text}{{{min(n, nbools)}}}", tag, dtype, 0, min(n, nbools), True, "boolarray", bit=0, avail=nbools, shape="boolarr{n}")
        return Req(f"{text}[{i}]{{{n}}}", tag, dtype, 0, n, True, "boolarray", bit=i, avail=nbools - i, shape="boolarr[i]{n}")
    # ---- walk: tag [index] (.member[index])* ------------------------------------------------------------------------
    dims = tag.dims or None
    avail = tag.elements
    in_array = bool(dims)
    indexed = False
    while True:
        if in_array:
            if rng.random() < 0.7 or (dtype.kind == "struct" and rng.random() < 0.9):
                idx = _pick_index(rng, dims)
                text += _render_index(rng, idx)
                lin = _lin(dims, idx)
                off += lin * dtype.size
                avail -= lin
                indexed = True
                shape.append(f"[{len(dims)}d]")
            else:
                shape.append("[]")
        # descend into a structure member?
        can_descend = dtype.kind == "struct" and (not in_array or indexed)
        if can_descend and rng.random() < 0.6:
            # a scalar DWORD member (CONTROL.CTL) is neither an integer nor a BOOL array in the documented syntax: not addressed
            vis = [m for m in dtype.visible_members() if not (m.dtype.name == "DWORD" and not m.array_len)]
            if not vis:
                break
            m = rng.choice(vis)
            text += "." + m.name
            shape.append(".m")
            if m.is_bit:
                return Req(text, tag, rpj.ATOM_TYPES["BOOL"], off + m.offset, 1, False, "boolmember", bit=m.bit, avail=1, shape="".join(shape) + ":boolmember")
            off += m.offset
            dtype = m.dtype
            if dtype.name == "DWORD" and m.array_len:
                # BOOL array member: address single BOOLs / ranges through the member
                nbools = 32 * m.array_len
                i = rng.randrange(nbools)
                if for_write or rng.random() < 0.6:
                    return Req(f"{text}[{i}]", tag, dtype, off, 1, False, "boolarray", bit=i, avail=nbools - i, shape="".join(shape) + ":boolarr[i]")
                n = rng.randint(1, nbools - i)
                return Req(f"{text}[{i}]{{{n}}}", tag, dtype, off, n, True, "boolarray", bit=i, avail=nbools - i, shape="".join(shape) + ":boolarr[i]{n}")
            if m.array_len:
                dims, avail, in_array, indexed = (m.array_len,), m.array_len, True, False
            else:
                dims, avail, in_array, indexed = None, 1, False, False
            continue
        break
    if for_write and dtype.kind == "struct" and getattr(dtype, "overlapped", False):
        # whole-structure writes where BOOL members alias bits of visible members: expectation undefined -> write a member instead
        vis = [m for m in dtype.visible_members() if not m.is_bit and m.dtype.kind == "atomic" and not m.array_len and m.dtype.name != "DWORD"]
        if vis:
            m = rng.choice(vis)
            text += "." + m.name
            off += m.offset
            dtype = m.dtype
            in_array, avail = False, 1
            shape.append(".m")
    # ---- .bit of an integer ----------------------------------------------------------------------------------------------
    if dtype.kind == "atomic" and dtype.name in rpj.INT_ATOMS and rng.random() < (0.25 if not for_write else 0.3):   # signed AND unsigned integers
        bit = rng.choice([0, 1, 7, 8 * dtype.size - 1, rng.randrange(8 * dtype.size)])
        bit = min(bit, 8 * dtype.size - 1)
        return Req(f"{text}.{bit}", tag, dtype, off, 1, False, "bit", bit=bit, avail=1, shape="".join(shape) + ":bit")
    # ---- element count ---------------------------------------------------------------------------------------------------------
    count, explicit = 1, False
    if in_array and rng.random() < 0.65:
        count = _pick_count(rng, avail, dtype.size, conn_size)
        explicit = True
        text += "{%d}" % count
        shape.append("{n}")
    elif in_array and rng.random() < 0.1:
        explicit = True
        text += "{1}"
        shape.append("{1}")
    return Req(text, tag, dtype, off, count, explicit, "value", avail=avail, shape="".join(shape) + ":" + dtype.kind)


# ---------------------------------------------------------------------------------------------------------------------------------
# write values
# ---------------------------------------------------------------------------------------------------------------------------------
def _atom_value(rng, name):
    code, size, d = rpj.ATOMS[name]
    if d[0] == "int":
        lo, hi = rc.int_range(d[1], d[2])
        return rng.choice([lo, hi, 0, 1, -1 if d[2] else 1, rng.randint(lo, hi), rng.randint(lo, hi)])
    if d[0] == "real":
        if rng.random() < 0.3:
            bits = rng.choice([0x7F800000, 0xFF800000, 0x00000001, 0x7F7FFFFF, 0x3F800000, 0x80000000, 0x7FC00000, 0x00000000]) if size == 4 else \
                rng.choice([0x7FF0000000000000, 1, 0x3FF0000000000000, 0x7FF8000000000000, 0x8000000000000000, 0xFFF0000000000000, 0])
            return struct.unpack("<f" if size == 4 else "<d", bits.to_bytes(size, "little"))[0]
        return struct.unpack("<f", struct.pack("<f", rng.uniform(-1e6, 1e6)))[0] if size == 4 else rng.uniform(-1e12, 1e12)
    if d[0] == "bool":
        return rng.random() < 0.5
    if d[0] == "bits":
        return [rng.random() < 0.5 for _ in range(32)]
    raise ValueError(name)


def gen_value_for(dtype, rng, overlong_strings=True):
    if dtype.kind == "atomic":
        return _atom_value(rng, dtype.name)
    if dtype.kind == "string":
        cap = dtype.capacity
        n = rng.choice([0, 1, cap // 2, max(0, cap - 1), cap, cap + 1, cap + 2, cap + 3, cap + 9]) if overlong_strings else rng.choice([0, 1, cap // 2, cap])
        return "".join(chr(rng.choice([rng.randrange(0x20, 0x7F), rng.randrange(0xA0, 0x100), rng.randrange(1, 256)])) for _ in range(n))
    out = {}
    for m in dtype.visible_members():
        if m.is_bit:
            out[m.name] = rng.random() < 0.5
        elif m.array_len:
            if m.dtype.name == "DWORD":
                out[m.name] = [rng.random() < 0.5 for _ in range(32 * m.array_len)]
            else:
                out[m.name] = [gen_value_for(m.dtype, rng, overlong_strings) for _ in range(m.array_len)]
        else:
            out[m.name] = gen_value_for(m.dtype, rng, overlong_strings)
    return out


def attach_value(req, rng):
    """choose an in-domain value for a write request"""
    if req.kind in ("bit", "boolmember"):
        req.value = rng.random() < 0.5
        if rng.random() < 0.15:
            # a bit is written from a truth value (the library tests `if value:`): a caller's 1 / 0, and any other non-zero int - also an
            # even one - is True
            req.value = rng.choice([1, 1, 2, 4, 0x80, 255, 256, -1, -2]) if req.value else 0
    elif req.kind == "boolarray":
        if req.is_list:
            extra = rng.choice([0, 0, 32])
            req.value = [rng.random() < 0.5 for _ in range(req.count + extra)]
            if rng.random() < 0.15:
                # elements are judged by truthiness, as the library's bit-string encoder does (`if val:`): a caller's 1 / 0, 0xFF
                # ("all ones" true), -1 or any other non-zero int is True and must set exactly its own bit
                req.value = [rng.choice([1, 1, 2, 7, 255, -1, 65536]) if x else 0 for x in req.value]
        else:
            req.value = rng.random() < 0.5
            if rng.random() < 0.15:
                req.value = rng.choice([1, 2, 255, -1]) if req.value else 0
    else:
        if req.is_list:
            extra = rng.choice([0, 0, 0, 1, 3])
            req.value = [gen_value_for(req.dtype, rng) for _ in range(req.count + extra)]
        else:
            req.value = gen_value_for(req.dtype, rng)
            if req.explicit and req.count == 1 and rng.random() < 0.5:
                req.value = [req.value]
    return req


def expected_written(req):
    """the value a read of the same address returns after a successful write (documented truncations applied)"""
    def trunc(dtype, v):
        if dtype.kind == "string":
            return v[:dtype.capacity]
        if dtype.kind == "struct":
            out = {}
            for m in dtype.visible_members():
                if m.is_bit:
                    out[m.name] = bool(v[m.name])
                elif m.array_len:
                    if m.dtype.name == "DWORD":
                        out[m.name] = [bool(x) for x in v[m.name][:32 * m.array_len]]
                    else:
                        out[m.name] = [trunc(m.dtype, x) for x in v[m.name][:m.array_len]]
                else:
                    out[m.name] = trunc(m.dtype, v[m.name])
            return out
        if dtype.name == "BOOL":
            return bool(v)
        return v
    v = req.value
    if req.kind in ("bit", "boolmember"):
        return bool(v)
    if req.kind == "boolarray":
        return [bool(x) for x in v[:req.count]] if req.is_list else bool(v)
    if req.is_list:
        return [trunc(req.dtype, x) for x in v[:req.count]]
    if isinstance(v, list) and req.explicit:
        v = v[0]
    return trunc(req.dtype, v)


def mask_for_write(req):
    """bytes of tag.data the property speaks about after a write of req: list of (offset, expected_byte | None)
    over the addressed range; None = don't-care (structure padding, hidden non-bit bytes, string data after LEN)"""
    exp = expected_written(req)
    tag = req.tag
    out = {}

    def put_value(dtype, base, v):
        if dtype.kind == "atomic":
            if dtype.name == "BOOL":
                out[base] = ("bool", bool(v))
            else:
                enc = rc.encode(rpj.ATOMS[dtype.name][2], v)
                for i, b in enumerate(enc):
                    out[base + i] = b
        elif dtype.kind == "string":
            raw = v.encode("iso-8859-1")[:dtype.capacity]
            for i, b in enumerate(len(raw).to_bytes(4, "little")):
                out[base + i] = b
            for i, b in enumerate(raw):
                out[base + 4 + i] = b
            for i in range(4 + len(raw), dtype.size):
                out.setdefault(base + i, None)
        else:
            for i in range(dtype.size):
                out.setdefault(base + i, None)
            for m in dtype.members:
                if dtype.is_hidden(m):
                    continue
                if m.is_bit:
                    cur = out.get(base + m.offset)
                    bits = cur[1] if isinstance(cur, tuple) and cur[0] == "bits" else {}
                    bits = dict(bits)
                    bits[m.bit] = bool(v[m.name])
                    out[base + m.offset] = ("bits", bits)
                elif m.array_len:
                    for k in range(m.array_len):
                        if m.dtype.name == "DWORD":
                            w = 0
                            for bi, bv in enumerate(v[m.name][32 * k:32 * k + 32]):
                                if bv:
                                    w |= 1 << bi
                            for i, b in enumerate(w.to_bytes(4, "little")):
                                out[base + m.offset + 4 * k + i] = b
                        else:
                            put_value(m.dtype, base + m.offset + k * m.dtype.size, v[m.name][k])
                else:
                    put_value(m.dtype, base + m.offset, v[m.name])

    if req.kind == "bit":
        out[req.offset + req.bit // 8] = ("bits", {req.bit % 8: bool(exp)})
    elif req.kind == "boolmember":
        out[req.offset] = ("bits", {req.bit: bool(exp)})
    elif req.kind == "boolarray":
        vals = exp if isinstance(exp, list) else [exp]
        for k, bv in enumerate(vals):
            i = req.bit + k
            byte = req.offset + 4 * (i // 32) + (i % 32) // 8
            cur = out.get(byte)
            bits = dict(cur[1]) if isinstance(cur, tuple) else {}
            bits[i % 8] = bool(bv)
            out[byte] = ("bits", bits)
    else:
        vals = exp if req.is_list else [exp]
        for k, v in enumerate(vals):
            put_value(req.dtype, req.offset + k * req.dtype.size, v)
    return out
