"""Builds a bench with a Logix controller (generated project) and an opened LogixDriver."""
from . import devices, reflogix, refproject as rpj, reftarget as rt
from .bench import Bench

CONFIGS = [
    # (label, firmware major, micro800, large forward open accepted)
    ("fw16", 16, False, True), ("fw17-500", 17, False, False), ("fw18", 18, False, True), ("fw20-500", 20, False, False),
    ("fw21", 21, False, True), ("fw32", 32, False, True), ("fw32-500", 32, False, False), ("fw24", 24, False, True),
    ("micro800", 12, True, False), ("micro800-4000", 12, True, True),
    # current Micro850/870 firmware reports major revision 21/22: still no symbol-instance addressing, no multi-service packets
    ("micro800-fw21", 21, True, False), ("micro800-fw22-4000", 22, True, True),
]


class LogixScenario:
    def __init__(self, rng, size="small", config=None, slot=0, init_program_tags=True, project=None, open_driver=True, bench=None, host=None,
                 bridge=None):
        """bench / host: a second controller at another address on the SAME fake network (two drivers, two PLCs, one process).
        bridge: None = drawn (half of the non-Micro800 scenarios put a communication module in front of the controller), False = the
        controller owns the Ethernet port (checks that aim faults at UNROUTED messages need the controller to answer those)"""
        import pycomm3
        self.rng = rng
        self.own_bench = bench is None
        self.b = bench or Bench(rng)
        self.host = host or self.b.host
        label, fw, micro, large = config or rng.choice(CONFIGS)
        self.label, self.fw, self.micro, self.large = label, fw, micro, large
        if project is None and size == "fixture":
            import os
            from . import common
            fx = os.path.join(common.REPO, "tests", "offline", "all_tags.json")
            project = rpj.load_fixture(fx, rng, fw=fw) if os.path.exists(fx) and not micro else None
            size = "medium"
        self.prj = project or rpj.generate_project(rng, size, fw=fw, micro800=micro)
        ident = devices.random_identity(rng, micro800=micro, major=fw)
        ident.vendor, ident.product_type = 1, 0x0E
        self.dev = reflogix.LogixDevice(ident, rng, self.b.log, self.prj)
        pol = rt.Policy()
        pol.accept_large_fo = large
        pol.list_identity_session = rng.choice(["echo", "echo", "zero", "other"])
        routes = {((1, slot),): self.dev}
        front = self.dev
        if micro:
            # a Micro800 has no backplane: it is reached with an empty route only, a hop through port 1 does not exist
            # (the library strips "bp/0" once ListIdentity has told it what it is talking to)
            routes = {(): self.dev}
        elif (rng.random() < 0.5) if bridge is None else bridge:
            # a ControlLogix rack: the Ethernet port belongs to a communication module (it answers ListIdentity and unrouted
            # messages, it holds no tags); the controller is reached through the backplane route only.  The other half of the
            # scenarios is a CompactLogix-style controller that owns the port itself.
            front = rt.Device(rt.Identity(product_type=0x0C, product_code=166, major=11, minor=2, serial=rng.getrandbits(32), name="1756-EN2T/D"), rng, self.b.log)
        self.bridge = front is not self.dev
        self.target = rt.RefTarget(rng, front=front, routes=routes, policy=pol, log=self.b.log)
        self.b.set_target(self.target, host=self.host)
        # Termination budget of one public call (socket operations, see FakeNet.op): finite, but sized for the largest legitimate
        # call of this scenario.  The unit is BYTES, not messages: the delivery schedule may hand the client one byte per recv(), so
        # a call legitimately needs up to one operation per byte it moves.  Bound: 64 requests, each moving the project's largest
        # tag plus ~250 bytes of request/reply framing per fragment at the smallest payload the connection allows; x2 for sends.
        # (A flat 60 000 was a false alarm: 40 whole-tag reads of 4 KiB arrays on a Micro800 - one message per tag, 500-byte
        # connection, replies delivered a few bytes at a time - measured 71 038 operations and completed correctly.)
        tags_ = list(self.prj.symbols) + [t for p_ in self.prj.programs.values() for t in p_["symbols"]]
        biggest = max([len(getattr(t, "data", b"") or b"") for t in tags_] + [0])
        fragments = biggest // max(1, self.conn_size - 150) + 4
        self.b.net.call_budget = max(60000, 2 * 64 * (biggest + 250 * fragments), 0 if self.own_bench else (self.b.net.call_budget or 0))
        self.path = self.host if slot == 0 else f"{self.host}/{slot}"
        self.drv = pycomm3.LogixDriver(self.path, init_program_tags=init_program_tags)
        self.opened = None
        self.touched = False
        self.reopened = False
        if open_driver and rng.random() < 0.3:
            # a caller may look at a driver before opening it (logging its state, a GUI showing defaults): reading the documented
            # accessors of an unopened driver changes nothing about what open() and later calls do
            for a_ in ("revision_major", "info", "name", "tags", "data_types", "connected", "connection_size", "tags_json"):
                try:
                    getattr(self.drv, a_)
                except Exception:  # noqa
                    pass
            self.touched = True
        if open_driver:
            # open() moves the symbol list and the templates (tens of kilobytes at most), never the tags' data: its own, smaller budget,
            # so that a driver that loops in open() is stopped after seconds, not minutes
            full_budget = self.b.net.call_budget
            self.b.net.call_budget = min(full_budget, 300000)
            self.opened = self.b.call("open", self.drv.open)
            self.reopened = False
            if self.ok() and rng.random() < 0.25:
                # defensive "make sure it is open" code, or `with plc:` on a driver that was opened by hand (__enter__ calls open()):
                # open() on an open driver succeeds and leaves the negotiated connection (size, ids, sequence) what it is
                again = self.b.call("open", self.drv.open)
                self.reopened = True
                if not (again[0] == "ok" and again[1]):
                    self.opened = again
            self.b.net.call_budget = full_budget

    def use_second_driver(self):
        """The documented way to put several drivers on one PLC (docs/getting_started.rst): a second LogixDriver with
        init_tags=False that is handed the first driver's tag list.  Its open() uploads nothing, so its first connected request
        (and with it the Forward Open, incl. the fallback after a refused Large Forward Open) is the caller's own read / write.
        The scenario continues on the second driver; the first one stays open (two sessions on the target)."""
        import pycomm3
        d2 = pycomm3.LogixDriver(self.path, init_tags=False)
        d2._tags = self.drv.tags
        st = self.b.call("open", d2.open)
        if st[0] == "ok" and st[1]:
            self.first_drv, self.drv = self.drv, d2
            return True
        return False

    @property
    def conn_size(self):
        return 4000 if self.large else 500

    def ok(self):
        return self.opened is not None and self.opened[0] == "ok" and bool(self.opened[1])

    def close(self):
        try:
            self.b.call("close", self.drv.close)
        finally:
            if self.own_bench:
                self.b.close()
