"""Lifecycle engine: runs a call history of a driver against the reference target under a target policy and an
optional transport fault at the k-th I/O operation; reports client-side and target-side observations.
Used by C10 (verdict), C11 and C17 (their monitors watch the same executions)."""
from . import devices, fakesock, reflogix, refproject as rpj, reftarget as rt
from .bench import Bench, ScenarioDead

# gm_conn_us: generic_message(..., unconnected_send=True) with `connected` left at its default (True) - a connected message all the same
CIP_OPS = ["open", "close", "gm_conn", "gm_ucmm", "gm_usend", "with_ok", "with_exc", "list_id", "gm_conn_us", "with_commerr"]
LOGIX_OPS = ["open", "close", "read", "write", "read_big", "plc_name", "with_ok", "with_exc", "gm_conn", "gm_conn_us", "with_commerr"]
SLC_OPS = ["open", "close", "slc_read", "slc_write", "with_ok"]
POLICIES = ["large-ok", "large-refused", "all-fo-refused", "session-refused", "service-error", "list-identity-broken"]
FAULT_KINDS = ["send-raise", "recv-raise", "recv-eof", "vanish"]


class UserError(Exception):
    pass


def make_policy(name):
    pol = rt.Policy()
    if name == "large-refused":
        pol.accept_large_fo = False
    elif name == "all-fo-refused":
        pol.accept_large_fo = pol.accept_std_fo = False
    elif name == "session-refused":
        pol.accept_register = False
    elif name == "list-identity-broken":
        # a target whose TCP ListIdentity replies cannot be decoded: encapsulation error without a body / no identity item /
        # an identity item cut short.  Everything else works, so open() (which only wants to know what it is talking to)
        # and the rest of the history must behave as against any other healthy target
        state = {"n": 0}

        def mutate(info, frame, state=state):
            if info.get("kind") != "list_identity":
                return frame
            state["n"] += 1
            v = state["n"] % 3
            if v == 0:
                return frame[:2] + b"\x00\x00" + frame[4:8] + (1).to_bytes(4, "little") + frame[12:24]
            if v == 1:
                return frame[:2] + (2).to_bytes(2, "little") + frame[4:24] + b"\x00\x00"
            cut = frame[:24 + 2 + 12]
            return cut[:2] + (len(cut) - 24).to_bytes(2, "little") + cut[4:]
        pol.mutate_reply = mutate
    return pol


class Run:
    """one execution of a history"""

    def __init__(self, rng, driver_kind, history, policy="large-ok", fault=None, project=None, slc_table=None, init_tags=True):
        import pycomm3 as p
        self.p = p
        self.rng, self.kind, self.history, self.policy_name, self.fault = rng, driver_kind, history, policy, fault
        self.init_tags = init_tags
        self.b = Bench(rng)
        self.findings = []    # (key, what)
        self.events = []      # per op: (op, status, detail)
        self.op_bounds = []   # socket-operation count after each op of the history (fault positions inside a given op)
        log = self.b.log
        ident = rt.Identity()
        pol = make_policy(policy)
        pol.list_identity_session = rng.choice(["echo", "echo", "zero", "other"])
        if driver_kind in ("logix", "micro"):
            micro = driver_kind == "micro"
            self.prj = project or small_project(rng, fw=12 if micro else None, micro800=micro)
            ident.major = self.prj.fw_major
            if micro:
                ident.name = "2080-LC50-48QWB"
            self.dev = reflogix.LogixDevice(ident, rng, log, self.prj)
            self.dev.page_mode, self.dev.tmpl_frag, self.dev.read_frag = "all", "all", "full"
            self.drv_factory = lambda: p.LogixDriver(self.b.host, init_tags=init_tags)
        elif driver_kind == "slc":
            from . import refslc
            self.dev = refslc.SLCDevice(rt.Identity(name="1747-L552 SLC 5/05"), rng, log, slc_table or refslc.DataTable.random(rng))
            self.drv_factory = lambda: p.SLCDriver(self.b.host)
        else:
            self.dev = devices.ControllerDevice(ident, rng, log)
            self.dev.responder = lambda rq: (0, (), b"\x01\x02\x03\x04")
            self.drv_factory = lambda: p.CIPDriver(self.b.host + "/bp/0")
        if policy == "service-error":
            n = {"k": 0}
            every = rng.choice([2, 3])

            def force(rq, n=n, every=every):
                if rq.segs and rq.segs[0][:3] == ("logical", "class", 0x01):
                    return None
                n["k"] += 1
                if n["k"] % every == 0:
                    return (rng.choice([0x05, 0x08, 0x0F, 0xFF]), (), b"")
                return None
            self.dev.force_status = force
        self.target = rt.RefTarget(rng, front=self.dev, routes={((1, 0),): self.dev, (): self.dev}, policy=pol, log=log)
        self.b.set_target(self.target)
        self.drv = self.drv_factory()
        self.io_ops_total = 0
        self.close_calls = 0
        orig_close = self.drv.close

        def counted_close(*a, **k):
            self.close_calls += 1
            return orig_close(*a, **k)
        self.drv.close = counted_close

    # ---- one public operation ----------------------------------------------------------------------------------------------
    def do(self, op):
        p, d, b = self.p, self.drv, self.b
        if op == "open":
            return b.call(op, d.open)
        if op == "close":
            return b.call(op, d.close)
        if op == "gm_conn":
            return b.call(op, d.generic_message, service=0x0E, class_code=0x01, instance=1, attribute=7, connected=True)
        if op == "gm_conn_us":
            return b.call(op, d.generic_message, service=0x0E, class_code=0x01, instance=1, attribute=7, unconnected_send=True)
        if op == "gm_ucmm":
            return b.call(op, d.generic_message, service=0x01, class_code=0x01, instance=1, connected=False, unconnected_send=False)
        if op == "gm_usend":
            return b.call(op, d.generic_message, service=0x01, class_code=0x01, instance=1, connected=False, unconnected_send=True)
        if op == "list_id":
            return b.call(op, d._list_identity)
        if op == "plc_name":
            return b.call(op, d.get_plc_name)
        if op in ("read", "write", "read_big"):
            tags = self.prj.user_tags()
            small = [t for t in tags if t.dtype.kind == "atomic" and not t.dims and t.dtype.name != "BOOL"]
            big = [t for t in tags if t.dims and t.dtype.size * t.elements > 600 and t.dtype.name != "DWORD"]
            if op == "read":
                return b.call(op, d.read, *[t.full_name for t in small[:3]]) if len(small) >= 2 else b.call(op, d.read, tags[0].full_name)
            if op == "read_big" and big:
                t = big[0]
                return b.call(op, d.read, f"{t.full_name}{{{t.elements}}}")
            t = small[0] if small else None
            if t is None:
                return b.call(op, d.read, tags[0].full_name)
            return b.call(op, d.write, t.full_name, 1)
        if op == "slc_read":
            return b.call(op, d.read, "N7:0", "B3:1/2")
        if op == "slc_write":
            return b.call(op, d.write, ("N7:1", 5))
        if op in ("with_ok", "with_exc", "with_commerr"):
            def body():
                with d:
                    if op == "with_exc":
                        raise UserError("user code failed inside the with block")
                    if op == "with_commerr":
                        # the block is left through the library's own CommError (user code re-raising / raising it) while the target
                        # is still there: leaving the block closes like any other exit
                        raise p.CommError("user code gave up inside the with block")
                    if self.kind in ("logix", "micro"):
                        tags = self.prj.user_tags()
                        return d.read(tags[0].full_name)
                    if self.kind == "slc":
                        return d.read("N7:0")
                    return d.generic_message(service=0x0E, class_code=0x01, instance=1, attribute=1)
            return b.call(op, body)
        raise ValueError(op)

    # ---- the run ---------------------------------------------------------------------------------------------------------------
    def execute(self):
        p, b, t = self.p, self.b, self.target
        net = b.net
        net.reset_faults()
        if self.fault is not None:
            k, kind = self.fault
            net.fault = fakesock.Fault(k, kind)
        PycommError = p.PycommError
        for i, op in enumerate(self.history):
            fired_before = bool(net.fault and net.fault.fired)
            closes_before = self.close_calls
            st, out = self.do(op)
            self.op_bounds.append(net.io_ops)
            fired_now = bool(net.fault and net.fault.fired) and not fired_before
            self.events.append((op, st, type(out).__name__ if st != "ok" else ("falsy" if (out is False or out is None or (hasattr(out, "error") and not out)) else "ok")))
            ctxt = f"history {list(self.history)}, op #{i} {op}, policy {self.policy_name}, fault {self.fault}, driver {self.kind}"
            if st == "budget":
                self.findings.append(("call-does-not-terminate:" + op, f"{op}() exceeded its step budget ({out}) [{ctxt}]"))
                return self
            if st == "exc":
                if isinstance(out, UserError):
                    if op != "with_exc":
                        self.findings.append(("foreign-exception:UserError", f"unexpected UserError [{ctxt}]"))
                elif not isinstance(out, PycommError):
                    self.findings.append((f"foreign-exception:{op}:{type(out).__name__}", f"{op}() raised {type(out).__name__}: {out!s:.120} - not a library exception [{ctxt}]"))
            if op == "open" and st == "ok" and out and self.kind in ("logix", "micro") and self.init_tags and fired_now:
                # a failure may not vanish: an open() during which the transport failed either raises / returns False, or it did
                # everything an open() does - then the driver holds the controller's tag list
                want_names = sorted(t_.full_name for t_ in self.prj.user_tags())
                got_names = sorted(self.drv.tags or {})
                if got_names != want_names:
                    self.findings.append(("open-reports-success-with-incomplete-tag-list",
                                          f"open() returned {out!r} although the transport failed during it, and the driver holds {len(got_names)} of the controller's {len(want_names)} tags "
                                          f"(missing {sorted(set(want_names) - set(got_names))[:4]}) [{ctxt}]"))
            body_ran = (op == "with_ok" and st == "ok") or (op == "with_exc" and isinstance(out, UserError)) or \
                       (op == "with_commerr" and st == "exc" and "inside the with block" in str(out))
            if body_ran and self.close_calls == closes_before:
                # the block was entered (its body ran), so leaving it closes - whatever earlier with-blocks on this object did
                self.findings.append(("with-block-left-without-close", f"the body of the with block ran ({op}, {st}) but leaving the block did not call close() [{ctxt}]"))
                if getattr(self.drv, "connected", None):
                    self.findings.append((f"connected-after-close:{op}", f"driver.connected is True after leaving the with block [{ctxt}]"))
            if op in ("with_exc", "with_commerr") and st == "ok":
                self.findings.append(("with-block-swallows-exception", f"an exception raised inside the with block did not propagate [{ctxt}]"))
            if fired_now and self.close_calls > closes_before:
                for c in t.connections.values():
                    c.orphaned = True   # its Forward Close was destroyed by the injected fault: dies by timeout, not a leak
            if op in ("close", "with_ok", "with_exc", "with_commerr") and self.close_calls > closes_before:
                if getattr(self.drv, "connected", None):
                    self.findings.append((f"connected-after-close:{op}", f"driver.connected is True after {op} ({st}) [{ctxt}]"))
                if not fired_now and not net.vanished and not (self.fault and self.fault[1] == "vanish" and net.fault.fired):
                    leaked_s = len(t.sessions)
                    leaked_c = [c for c in t.connections.values() if c.acknowledged and not getattr(c, "orphaned", False)]
                    if leaked_s or leaked_c:
                        self.findings.append((f"target-still-holds-{'session' if leaked_s else 'connection'}-after-{op}",
                                              f"after {op} ({st}) with the target reachable it still holds {leaked_s} session(s) and {len(leaked_c)} connection(s) [{ctxt}]"))
        # ---- afterwards: no faults any more; close, then a later open must work again ----------------------------------------
        self.io_ops_total = net.io_ops
        net.reset_faults()
        # connections whose Forward Close could not be delivered because of the injected fault die with their (modelled) timeout
        st, out = b.call("final-close", self.drv.close)
        if st == "budget":
            self.findings.append(("call-does-not-terminate:close", f"final close() exceeded its step budget [{self.history}, fault {self.fault}]"))
            return self
        if st == "exc" and not isinstance(out, PycommError):
            self.findings.append((f"foreign-exception:close:{type(out).__name__}", f"final close() raised {out!r:.120} [{self.history}, fault {self.fault}]"))
        if getattr(self.drv, "connected", None):
            self.findings.append(("connected-after-close:final", f"driver.connected is True after the final close [{self.history}, fault {self.fault}]"))
        t.connections.clear()
        t.triads.clear()
        for cn in list(t.sessions.values()):
            pass
        if self.policy_name in ("large-ok", "large-refused", "service-error", "list-identity-broken"):
            self.dev.force_status = None
            st, out = b.call("reopen", self.drv.open)
            ctxt = f"history {list(self.history)}, policy {self.policy_name}, fault {self.fault}, driver {self.kind}"
            if st == "budget":
                self.findings.append(("call-does-not-terminate:open", f"re-open exceeded its step budget [{ctxt}]"))
                return self
            if st != "ok" or not out:
                self.findings.append(("reopen-fails", f"open() after close() failed against a healthy target: {out!r:.160} [{ctxt}]"))
            else:
                if self.kind in ("logix", "micro") and self.init_tags and not self.drv.tags:
                    # "a later open works again": with init_tags the open() of a healthy controller uploads its tag list - whatever
                    # an earlier, failed open() left behind in the driver object
                    self.findings.append(("reopen-does-not-upload-tag-list", f"open() after close() returned {out!r} against a healthy controller but the driver holds no tag definitions "
                                                                             f"(the project has {len(self.prj.user_tags())} tags) [{ctxt}]"))
                st, out = self.do("gm_conn" if self.kind == "cip" or (self.kind in ("logix", "micro") and not self.drv.tags) else "read" if self.kind in ("logix", "micro") else "slc_read")
                good = st == "ok" and (bool(out) if not isinstance(out, list) else all(out))
                if not good:
                    self.findings.append(("operation-after-reopen-fails", f"first operation after re-open failed: {out!r:.200} [{ctxt}]"))
                st, out = b.call("close", self.drv.close)
                if st != "ok":
                    self.findings.append(("close-after-reopen-fails", f"close() after re-open: {out!r:.160} [{ctxt}]"))
                elif t.sessions or any(c.acknowledged for c in t.connections.values()):
                    self.findings.append(("target-still-holds-session-after-close", f"after re-open + close the target still holds {len(t.sessions)} session(s), {len(t.connections)} connection(s) [{ctxt}]"))
        return self

    def finish(self):
        self.b.close()


def small_project(rng, fw=None, micro800=False):
    b = rpj.ProjectBuilder(rng, fw=fw or rng.choice([17, 20, 32]), micro800=micro800)
    u = b.udt("Small", [("a", "DINT", 0), ("f", "BOOL", 0), ("r", "REAL", 0)])
    b.tag("d1", "DINT")
    b.tag("i1", "INT")
    b.tag("r1", "REAL")
    b.tag("u1", u)
    b.tag("arr", "DINT", (1200,))
    b.tag("bits", "DWORD", (2,))
    return b.done()


def histories(ops, max_len):
    out = [()]
    frontier = [()]
    for _ in range(max_len):
        frontier = [h + (o,) for h in frontier for o in ops]
        out += frontier
    return out[1:]
