"""Pairs every type the library exports or constructs with a reference descriptor (refcodec) and
generates values / byte strings for it.  The pairing is by documented name and constructor
semantics (docs/getting_started.rst "Data Types", docstrings), never by inspecting the
implementation's format strings."""
import struct

from . import refcodec as rc

I8, U8, I16, U16, I32, U32, I64, U64 = (("int", 1, True), ("int", 1, False), ("int", 2, True), ("int", 2, False),
                                         ("int", 4, True), ("int", 4, False), ("int", 8, True), ("int", 8, False))


class TypeCase:
    """lib: the pycomm3 type (class or instance exposing encode/decode); desc: reference descriptor;
    kind: 'plain' | 'larray' | 'uarray' | 'rest' (consumes rest of buffer)."""

    __slots__ = ("label", "lib", "desc", "kind", "depth")

    def __init__(self, label, lib, desc, kind="plain", depth=0):
        self.label, self.lib, self.desc, self.kind, self.depth = label, lib, desc, kind, depth

    def named(self, p, name):
        """a member instance of this type carrying `name` (for Struct members)"""
        lib = self.lib
        if isinstance(lib, type):
            return lib(name)
        # n_bytes() returns an instance: make a fresh one of the same class
        return type(lib)(name)


def elementary_cases(p):
    out = []
    for name, (code, d) in rc.SPEC_TYPES.items():
        out.append(TypeCase(name, getattr(p, name), d))
    out.append(TypeCase("LOGIX_STRING", p.LOGIX_STRING, rc.LOGIX_STRING))
    return out


def nbytes_case(p, k):
    return TypeCase(f"n_bytes({k})", p.n_bytes(k), ("bytes", k), kind="rest" if k == -1 else "plain")


def ipaddress_case(p):
    return TypeCase("IPAddress", p.IPAddress, ("ipv4",))


def revision_case(p):
    return TypeCase("Revision", p.Revision, ("struct", (("major", U8), ("minor", U8))))


def fixstr_case(p, cap, lenname="UDINT"):
    ld = rc.SPEC_TYPES[lenname][1]
    lib = p.FixedSizeString(cap) if lenname == "UDINT" else p.FixedSizeString(cap, getattr(p, lenname))
    return TypeCase(f"FixedSizeString({cap},{lenname})", lib, ("fixstr", cap, ld))


LEN_TYPES = ["USINT", "UINT", "UDINT", "SINT", "INT", "DINT"]


MAX_TYPE_BYTES = 4096


def gen_type(p, rng, depth, elem_pool=None):
    """Random type from the constructor grammar, nesting depth <= depth, fixed part <= MAX_TYPE_BYTES."""
    while True:
        c = _gen_type(p, rng, depth, elem_pool)
        if rc.min_size(c.desc) <= MAX_TYPE_BYTES:
            return c


def _gen_type(p, rng, depth, elem_pool=None):
    elems = elem_pool or elementary_cases(p)
    roll = rng.random()
    if depth <= 0 or roll < 0.30:
        r2 = rng.random()
        if r2 < 0.70:
            return rng.choice(elems)
        if r2 < 0.80:
            # -1: "all remaining bytes" (kind "rest": only alone or as the last member of a structure)
            return nbytes_case(p, rng.choice([1, 2, 3, 4, 6, 8, 16, 33, -1, -1]))
        if r2 < 0.88:
            return fixstr_case(p, rng.choice([1, 2, 3, 4, 5, 8, 16, 20, 82, 83, 480]), rng.choice(["UDINT", "UDINT", "DINT", "UINT"]))
        if r2 < 0.94:
            return ipaddress_case(p)
        return revision_case(p)
    if roll < 0.55:
        el = gen_type(p, rng, depth - 1, elems)
        while el.kind in ("uarray", "rest") or not isinstance(el.lib, type):  # element types are classes ("[]" operator)
            el = gen_type(p, rng, depth - 1, elems)
        n = rng.choice([0, 1, 1, 2, 3, 4, 5, 7, 8, 16, 31, 32, 33])
        ctor = rng.random()
        lib = p.Array(n, el.lib) if ctor < 0.5 or not isinstance(el.lib, type) else el.lib[n]
        return TypeCase(f"{el.label}[{n}]", lib, ("array", n, el.desc), depth=el.depth + 1)
    if roll < 0.65:
        el = gen_type(p, rng, depth - 1, elems)
        while el.kind in ("uarray", "rest") or not isinstance(el.lib, type):
            el = gen_type(p, rng, depth - 1, elems)
        ln = rng.choice(LEN_TYPES)
        lcls = getattr(p, ln)
        form = rng.random()
        if form < 0.4 and isinstance(el.lib, type):
            lib = el.lib[lcls]  # documented form: SINT[SINT]
        elif form < 0.7:
            lib = p.Array(lcls, el.lib)
        else:
            lib = p.Array(lcls("n"), el.lib)  # "length specified as a DataType" - an instance
        return TypeCase(f"{el.label}[{ln}]", lib, ("larray", rc.SPEC_TYPES[ln][1], el.desc), kind="larray", depth=el.depth + 1)
    if roll < 0.72:
        el = gen_type(p, rng, depth - 1, elems)
        # unbounded arrays of bit strings: nesting of the result is undocumented -> not generated
        while (el.kind in ("uarray", "rest", "larray") or rc.min_size(el.desc) == 0 or el.desc[0] == "bits"
               or not isinstance(el.lib, type)):
            el = gen_type(p, rng, depth - 1, elems)
        lib = p.Array(None, el.lib) if rng.random() < 0.5 or not isinstance(el.lib, type) else el.lib[None]
        return TypeCase(f"{el.label}[None]", lib, ("uarray", el.desc), kind="uarray", depth=el.depth + 1)
    if roll < 0.92:
        n = rng.choice([1, 2, 2, 3, 3, 4, 5, 8])
        members, descs, labels = [], [], []
        unnamed_budget = rng.choice([0, 0, 1, 2])
        for i in range(n):
            m = gen_type(p, rng, depth - 1, elems)
            last = i == n - 1
            while m.kind in ("uarray", "rest") and not last:
                m = gen_type(p, rng, depth - 1, elems)
            if unnamed_budget and rng.random() < 0.3:
                unnamed_budget -= 1
                members.append(m.lib)
                # an unnamed class member has name None, an unnamed instance (n_bytes) has name "": both are dropped on decode
                descs.append((None if isinstance(m.lib, type) else "", m.desc))
                labels.append(m.label)
            else:
                nm = f"m{i}"
                members.append(m.named(p, nm))
                descs.append((nm, m.desc))
                labels.append(f"{nm}:{m.label}")
        # a structure consumes the rest of the buffer when its last member does - at any nesting depth (a struct ending in a struct
        # ending in n_bytes(-1) / T[None]); such a type may only stand alone or last, never as an array element
        kind = "rest" if descs and consumes_rest(("struct", tuple(descs))) else "plain"
        return TypeCase("Struct(" + ",".join(labels) + ")", p.Struct(*members), ("struct", tuple(descs)), kind=kind,
                        depth=1 + max([0]))
    return gen_structtag(p, rng, depth - 1, elems)


def gen_structtag(p, rng, depth, elems):
    """A Logix template layout built directly through custom_types.StructTag."""
    atoms = [c for c in elems if c.desc[0] in ("int", "real") or c.label in ("DWORD",)]
    off = 0
    members, mdesc, bits, private = [], [], [], set()
    nm = rng.randint(1, 7)
    i = 0
    bitdesc = []
    while i < nm:
        r = rng.random()
        if r < 0.3:
            host = f"ZZZZZZZZZZT{i}"
            members.append((p.SINT(host), off))
            mdesc.append((host, I8, off))
            private.add(host)
            for b in range(rng.randint(1, 8)):
                bitdesc.append((f"b{i}_{b}", off, b))
            off += 1
        elif r < 0.8 or depth <= 0:
            a = rng.choice(atoms)
            sz = rc.size_of(a.desc)
            off = (off + sz - 1) // sz * sz
            if rng.random() < 0.3:
                n = rng.randint(1, 5)
                off = (off + 3) // 4 * 4
                members.append((p.Array(n, a.lib)(f"m{i}"), off))
                mdesc.append((f"m{i}", ("array", n, a.desc), off))
                off += sz * n
            else:
                members.append((a.lib(f"m{i}"), off))
                mdesc.append((f"m{i}", a.desc, off))
                off += sz
        elif r < 0.9:
            cap = rng.choice([1, 3, 4, 12, 82])
            off = (off + 3) // 4 * 4
            fs = fixstr_case(p, cap)
            members.append((fs.lib(f"m{i}"), off))
            mdesc.append((f"m{i}", fs.desc, off))
            off += 4 + cap
        else:
            inner = gen_structtag(p, rng, depth - 1, elems)
            off = (off + 3) // 4 * 4
            members.append((inner.lib(f"m{i}"), off))
            mdesc.append((f"m{i}", inner.desc, off))
            off += inner.desc[1]
        i += 1
    size = (off + 3) // 4 * 4 + rng.choice([0, 0, 4])
    lib = p.StructTag(*members, bit_members={n: (o, b) for n, o, b in bitdesc}, private_members=set(private), struct_size=size)
    return TypeCase(f"StructTag(size={size},{len(members)}m,{len(bitdesc)}b)", lib,
                    ("udt", size, tuple(mdesc), tuple(bitdesc), frozenset(private)), depth=1)


def consumes_rest(desc):
    k = desc[0]
    if k == "uarray" or (k == "bytes" and desc[1] == -1):
        return True
    if k == "struct" and desc[1]:
        return consumes_rest(desc[1][-1][1])
    return False


def contains_uarray(desc):
    k = desc[0]
    if k == "uarray":
        return True
    if k in ("array", "larray"):
        return contains_uarray(desc[-1])
    if k == "struct":
        return any(contains_uarray(d) for n, d in desc[1])
    if k == "udt":
        return any(contains_uarray(d) for n, d, o in desc[2])
    return False


def has_nested_larray(desc, top=True):
    """derived-length arrays omit their prefix on encode, so they only round-trip at top level"""
    k = desc[0]
    if k == "larray":
        return (not top) or has_nested_larray(desc[2], False)
    if k in ("array", "uarray"):
        return has_nested_larray(desc[-1], False)
    if k == "struct":
        return any(has_nested_larray(d, False) for n, d in desc[1])
    if k == "udt":
        return any(has_nested_larray(d, False) for n, d, o in desc[2])
    return False


# ---------------------------------------------------------------------------------------------
# values
# ---------------------------------------------------------------------------------------------
FLOAT32_BITS = [0x00000000, 0x80000000, 0x3F800000, 0xBF800000, 0x7F800000, 0xFF800000, 0x7FC00000, 0xFFC00001,
                0x00000001, 0x007FFFFF, 0x00800000, 0x7F7FFFFF, 0xFF7FFFFF, 0x42F6E666, 0x3EAAAAAB]
FLOAT64_BITS = [0, 1 << 63, 0x3FF0000000000000, 0x7FF0000000000000, 0xFFF0000000000000, 0x7FF8000000000000,
                1, 0x000FFFFFFFFFFFFF, 0x0010000000000000, 0x7FEFFFFFFFFFFFFF, 0x405EDCCCCCCCCCCD]


def int_boundaries(nbytes, signed):
    lo, hi = rc.int_range(nbytes, signed)
    vals = {lo, lo + 1, hi, hi - 1, 0, 1, 2, 127, 128, 255, 256, 32767, 32768, 65535, 65536, -1, -2, -128, -129, -32768, -32769}
    for i in range(8 * nbytes):
        vals.add(1 << i)
        vals.add((1 << i) - 1)
        vals.add(-(1 << i))
    return sorted(v for v in vals if lo <= v <= hi)


def rand_str(rng, n, char_bytes, ascii_only=False):
    if ascii_only:
        return "".join(chr(rng.randrange(0x20, 0x7F)) for _ in range(n))
    if char_bytes == 1:
        return "".join(chr(rng.randrange(0, 256)) for _ in range(n))
    out = []
    for _ in range(n):
        o = rng.choice([rng.randrange(0x20, 0x7F), rng.randrange(0xA0, 0x800), rng.randrange(0x800, 0xD800), rng.randrange(0xE000, 0x10000)])
        out.append(chr(o))
    return "".join(out)


def gen_value(desc, rng, small=False):
    k = desc[0]
    if k == "int":
        lo, hi = rc.int_range(desc[1], desc[2])
        r = rng.random()
        if r < 0.3:
            return rng.choice(int_boundaries(desc[1], desc[2]))
        return rng.randint(lo, hi)
    if k == "real":
        if desc[1] == 4:
            bits = rng.choice(FLOAT32_BITS) if rng.random() < 0.3 else rng.getrandbits(32)
            return struct.unpack("<f", bits.to_bytes(4, "little"))[0]
        bits = rng.choice(FLOAT64_BITS) if rng.random() < 0.3 else rng.getrandbits(64)
        return struct.unpack("<d", bits.to_bytes(8, "little"))[0]
    if k == "bool":
        return rng.random() < 0.5
    if k == "str":
        mx = rc.int_range(desc[1], False)[1]
        n = rng.choice([0, 1, 2, 3, 7, 8, 40, 82, 83, 255 if mx >= 255 else mx])
        if not small and rng.random() < 0.05:
            n = rng.choice([255, 256, 257, 1000, 4000, 65535])
        n = min(n, mx, 300 if small else 70000)
        return rand_str(rng, n, desc[2])
    if k == "bits":
        return [rng.random() < 0.5 for _ in range(8 * desc[1])]
    if k == "bytes":
        # n_bytes(-1), "all remaining bytes": the empty value is outside the judged domain - with nothing left to read the
        # library raises BufferEmptyError, which is what C08 prescribes when no byte remains where a value should start
        n = desc[1] if desc[1] != -1 else rng.randint(1, 12)
        return bytes(rng.randrange(256) for _ in range(n))
    if k == "array":
        n, el = desc[1], desc[2]
        extra = rng.choice([0, 0, 0, 1, 3]) if n else 0
        if el[0] == "bits":  # over-long bit lists for fixed bit-string arrays: undocumented, not generated
            return [rng.random() < 0.5 for _ in range(n * 8 * el[1])]
        return [gen_value(el, rng, True) for _ in range(n + extra)]
    if k in ("larray", "uarray"):
        el = desc[-1]
        n = rng.choice([0, 1, 2, 3, 5, 9])
        if k == "larray":
            n = min(n, rc.int_range(desc[1][1], desc[1][2])[1])
        if el[0] == "bits":
            return [rng.random() < 0.5 for _ in range(n * 8 * el[1])]
        return [gen_value(el, rng, True) for _ in range(n)]
    if k == "struct":
        vals = [gen_value(d, rng, True) for n, d in desc[1]]
        return vals
    if k == "fixstr":
        cap = desc[1]
        n = rng.choice([0, 1, cap // 2, max(cap - 1, 0), cap])
        return rand_str(rng, n, 1)
    if k == "udt":
        _, size, members, bits, private = desc
        v = {n: gen_value(d, rng, True) for n, d, o in members if n not in private}
        for n, o, b in bits:
            v[n] = rng.random() < 0.5
        return v
    if k == "ipv4":
        return ".".join(str(rng.randrange(256)) for _ in range(4))
    raise ValueError(desc)


def struct_as_dict(desc, seq, rng=None):
    """positional struct value -> dict form (only possible when unnamed members <= 1: key None).
    rng: the keys are inserted in a shuffled order - a mapping carries no member order"""
    names = [n for n, d in desc[1]]
    if names.count(None) > 1 or "" in names:
        return None
    items = list(zip(names, seq))
    if rng is not None and rng.random() < 0.6:
        rng.shuffle(items)
    return {n: v for n, v in items}


def truncate_expected(desc, v):
    """What decode(encode(v)) must give: fixed arrays truncate over-long inputs; structs drop unnamed."""
    k = desc[0]
    if k == "array":
        n, el = desc[1], desc[2]
        if el[0] == "bits":
            return [bool(b) for b in v[: n * 8 * el[1]]]
        return [truncate_expected(el, x) for x in v[:n]]
    if k in ("larray", "uarray"):
        el = desc[-1]
        if el[0] == "bits":
            return [bool(b) for b in v]
        return [truncate_expected(el, x) for x in v]
    if k == "struct":
        if isinstance(v, dict):
            return {n: truncate_expected(d, v[n]) for n, d in desc[1] if n}
        return {n: truncate_expected(d, x) for (n, d), x in zip(desc[1], v) if n}
    if k == "udt":
        _, size, members, bits, private = desc
        out = {n: truncate_expected(d, v[n]) for n, d, o in members if n not in private}
        out.update({n: bool(v[n]) for n, o, b in bits if n not in private})
        return out
    if k == "fixstr":
        return v[: desc[1]]
    return v


def bad_values(desc, rng):
    """Out-of-domain python values for encode (each with a class label)."""
    k = desc[0]
    out = []
    common_bad = [("None", None), ("object", object()), ("dict", {"a": 1}), ("set", {1})]
    if k == "int":
        lo, hi = rc.int_range(desc[1], desc[2])
        out += [("min-1", lo - 1), ("max+1", hi + 1), ("2^64", 1 << 64), ("-2^64", -(1 << 64)), ("float", 1.5),
                ("str", "12"), ("bytes", b"\x01"), ("list", [1]), ("tuple", (1,)), ("complex", 1j), ("nan", float("nan"))]
        out += common_bad
    elif k == "real":
        out += [("str", "1.0"), ("bytes", b"\x00\x00\x80\x3f"), ("list", [1.0]), ("complex", 1j)] + common_bad
        if desc[1] == 4:
            out += [("overflow", 1e39), ("-overflow", -3.5e38 * 10), ("bigint", 1 << 200)]
        else:
            out += [("bigint", 1 << 2000)]
    elif k == "str":
        mx = rc.int_range(desc[1], False)[1]
        out += [("int", 5), ("float", 1.5), ("list", ["a"]), ("bytes", b"ab"), ("bytearray", bytearray(b"ab"))] + common_bad
        if desc[2] == 1:
            out += [("unencodable", "aĀb"), ("unencodable", "€"), ("unencodable", "\U0001F600")]
        if mx < 70000:
            out += [("too-long", "x" * (mx + 1))]
    elif k == "bits":
        n = 8 * desc[1]
        out += [("short", [True] * (n - 1)), ("long", [False] * (n + 1)), ("empty", []), ("int", 5), ("double", [True] * (2 * n))] + common_bad[:2]
    elif k == "bytes":
        out += [("int", 5), ("float", 1.5), ("None", None), ("object", object())]
    elif k == "array":
        n, el = desc[1], desc[2]
        if n > 0:
            if el[0] == "bits":
                w = 8 * el[1]
                out += [("too-few-bits", [True] * (n * w - 1)), ("too-few-bits", [True] * (n * w - w)), ("empty", [])]
            else:
                good = [gen_value(el, rng, True) for _ in range(n)]
                out += [("too-few", good[:-1]), ("empty", [])]
                inner = bad_values(el, rng)
                if inner:
                    lbl, bv = rng.choice(inner)
                    out += [("elem-" + lbl, good[:-1] + [bv])]
        out += [("None", None), ("int", 5), ("object", object())]
    elif k in ("larray", "uarray"):
        el = desc[-1]
        out += [("None", None), ("int", 5), ("object", object())]
        inner = bad_values(el, rng) if el[0] != "bits" else [("short", [True] * (8 * el[1] - 1))]
        if inner and el[0] != "bits":
            lbl, bv = rng.choice(inner)
            out += [("elem-" + lbl, [gen_value(el, rng, True), bv])]
        if el[0] == "bits":
            out += [("ragged-bits", [True] * (8 * el[1] + 3))]
    elif k == "struct":
        good = gen_value(desc, rng)
        names = [n for n, d in desc[1]]
        if len(good) >= 1:
            out += [("short-seq", good[:-1]), ("empty-seq", [])]
        d = struct_as_dict(desc, good)
        if d is not None and any(names):
            # every named member in turn (a member whose encoder accepts None - BOOL is truthiness-based - would otherwise hide
            # behind a first member that does not)
            named = [n for n in names if n]
            for nm in (named if len(named) <= 8 else rng.sample(named, 8)):
                dd = dict(d)
                del dd[nm]
                out.append(("missing-key", dd))
            out.append(("empty-dict", {}))
        out += [("None", None), ("int", 5), ("object", object())]
        for i, (n, md) in enumerate(desc[1]):
            inner = bad_values(md, rng)
            if inner:
                lbl, bv = rng.choice(inner)
                out.append(("member-" + lbl, good[:i] + [bv] + good[i + 1:]))
                break
    elif k == "fixstr":
        out += [("int", 5), ("list", ["a"]), ("bytes", b"ab"), ("unencodable", "Āa"), ("None", None), ("object", object())]
    elif k == "udt":
        good = gen_value(desc, rng)
        if good:
            keys_ = sorted(dd_ for dd_ in good)
            for k_ in (keys_ if len(keys_) <= 8 else rng.sample(keys_, 8)):
                dd = dict(good)
                dd.pop(k_)
                out.append(("missing-key", dd))
        out += [("None", None), ("int", 5), ("list", [1, 2]), ("empty-dict", {})] if good else [("None", None)]
    elif k == "ipv4":
        out += [("int-str", "300.1.1.1"), ("short", "1.2.3"), ("junk", "abc"), ("None", None), ("object", object()), ("v6", "::1")]
    return out
