"""Independent reference EtherNet/IP + CIP target (no pycomm3 imports).

  RefTarget            one TCP endpoint: encapsulation sessions, UCMM, Connection Manager (Forward Open 0x54 /
                       Large 0x5B / Forward Close 0x4E / Unconnected Send 0x52), class-3 connections, routing
                       of port-segment routes to Devices
  Device               message router of one module: Identity object + pluggable objects; journals every request
  MonitorLog           online monitors: frame (C11), path (C09), lifecycle (C10), sequence (C17), size (C04)

Strict where the properties demand it, tolerant where real devices are (DESIGN.md Appendix A)."""
import collections

from . import refencap as enc
from . import refepath as rp

ST_OK, ST_CONN_FAIL, ST_RESOURCE, ST_BAD_VALUE, ST_PATH_SYNTAX, ST_PATH_UNKNOWN, ST_PARTIAL = 0, 1, 2, 3, 4, 5, 6
ST_NOT_SUPPORTED, ST_ATTR_LIST, ST_NOT_ENOUGH, ST_TOO_MUCH, ST_EMBEDDED, ST_GENERAL = 0x08, 0x0A, 0x13, 0x15, 0x1E, 0xFF
ST_REPLY_TOO_LARGE = 0x11


class MonitorLog:
    def __init__(self):
        self.violations = []          # (pid, key, what, witness)
        self.counts = collections.Counter()
        self.frames = 0

    def v(self, pid, key, what, witness=None):
        self.counts[f"viol:{pid}:{key}"] += 1
        if len(self.violations) < 200:
            self.violations.append((pid, key, what, witness))

    def c(self, name, n=1):
        self.counts[name] += n

    def drain_into(self, res, pid_filter=None, prefix=""):
        """copy violations into a check's Result (only those of the properties the check decides)"""
        for pid, key, what, wit in self.violations:
            if pid_filter is None or pid in pid_filter:
                res.violation(f"{prefix}{pid}:{key}" if pid_filter is None or len(pid_filter) > 1 else f"{prefix}{key}", what, wit)
        self.violations = []


class Identity:
    def __init__(self, vendor=1, product_type=0x0E, product_code=55, major=20, minor=11, status=b"\x60\x31",
                 serial=0xC01EBE90, name="1756-L71/B LOGIX5571", state=3, ip="192.168.1.236", encap_version=1):
        self.vendor, self.product_type, self.product_code = vendor, product_type, product_code
        self.major, self.minor, self.status, self.serial, self.name = major, minor, bytes(status), serial, name
        self.state, self.ip, self.encap_version = state, ip, encap_version

    def name_bytes(self):
        return self.name.encode("iso-8859-1")

    def object_bytes(self):
        nb = self.name_bytes()
        return (self.vendor.to_bytes(2, "little") + self.product_type.to_bytes(2, "little") + self.product_code.to_bytes(2, "little")
                + bytes([self.major, self.minor]) + self.status + self.serial.to_bytes(4, "little") + bytes([len(nb)]) + nb)

    def list_identity_item(self):
        sock = (2).to_bytes(2, "big") + (44818).to_bytes(2, "big") + bytes(int(x) for x in self.ip.split(".")) + bytes(8)
        data = self.encap_version.to_bytes(2, "little") + sock + self.object_bytes() + bytes([self.state])
        return enc.ITEM_IDENTITY.to_bytes(2, "little") + len(data).to_bytes(2, "little") + data


class MRRequest:
    __slots__ = ("service", "path", "segs", "data", "transport", "route", "conn", "capacity", "device", "embedded")

    def __init__(self, service, path, segs, data, transport, route=(), conn=None, capacity=None):
        self.service, self.path, self.segs, self.data = service, path, segs, data
        self.transport, self.route, self.conn, self.capacity = transport, route, conn, capacity
        self.device = None
        self.embedded = False

    def logical(self, kind):
        for s in self.segs:
            if s[0] == "logical" and s[1] == kind:
                return s[2]
        return None


def mr_reply(service, status=0, ext=(), data=b""):
    out = bytes([service | 0x80, 0, status, len(ext)])
    for w in ext:
        out += int(w).to_bytes(2, "little")
    return out + data


class Device:
    """One module's message router.  Subclasses add objects by overriding `serve`."""

    def __init__(self, identity, rng, log):
        self.identity, self.rng, self.log = identity, rng, log
        self.journal = []               # every message-router request that reached this device
        self.responder = None           # callable(rq) -> (status, ext, data) for classes the device does not model
        self.force_status = None        # callable(rq) -> None | (status, ext, data): overrides execution (C13 / C03)
        self.requests_seen = 0

    def handle(self, rq):
        rq.device = self
        self.requests_seen += 1
        entry = {"transport": rq.transport, "service": rq.service, "segs": list(rq.segs), "data": bytes(rq.data),
                 "route": tuple(rq.route), "path": bytes(rq.path), "embedded": rq.embedded}
        self.journal.append(entry)
        forced = self.force_status(rq) if self.force_status else None
        if forced is not None:
            status, ext, data = forced
        else:
            status, ext, data = self.serve(rq)
        entry["reply"] = (status, tuple(ext), bytes(data))
        return status, ext, data

    def serve(self, rq):
        cls, inst = rq.logical("class"), rq.logical("instance")
        if cls == 0x01 and rq.segs and rq.segs[0][:2] == ("logical", "class"):
            return self.identity_object(rq, inst)
        if self.responder is not None:
            return self.responder(rq)
        return ST_PATH_UNKNOWN, (), b""

    def identity_object(self, rq, inst):
        if inst != 1:
            return ST_PATH_UNKNOWN, (), b""
        if rq.service == 0x01:
            # trailing request bytes tolerated (pycomm3 appends the route on the direct-UCMM path by design)
            out = self.identity.object_bytes()
            if getattr(self, "identity_optional_attrs", None) is None:
                self.identity_optional_attrs = self.rng.random() < 0.25
            if self.identity_optional_attrs:
                # Get_Attributes_All returns every attribute the device implements: after the product name the optional State (USINT),
                # Configuration Consistency Value (UINT) and Heartbeat Interval (USINT) may follow
                out += bytes([3]) + (0x1234).to_bytes(2, "little") + bytes([10])
                self.log.c("identity-objects-with-optional-attributes")
            return ST_OK, (), out
        if rq.service == 0x0E:
            attr = rq.logical("attribute")
            i = self.identity
            table = {1: i.vendor.to_bytes(2, "little"), 2: i.product_type.to_bytes(2, "little"), 3: i.product_code.to_bytes(2, "little"),
                     4: bytes([i.major, i.minor]), 5: i.status, 6: i.serial.to_bytes(4, "little"), 7: bytes([len(i.name_bytes())]) + i.name_bytes()}
            if attr in table:
                return ST_OK, (), table[attr]
            return 0x14, (), b""
        return ST_NOT_SUPPORTED, (), b""


class Connection:
    def __init__(self, ot_id, to_id, triad, size, device, route, session, large):
        self.ot_id, self.to_id, self.triad, self.size = ot_id, to_id, triad, size
        self.device, self.route, self.session, self.large = device, route, session, large
        self.acknowledged = False     # Forward Open reply fully delivered to the client
        self.last_seq = None
        self.last_reply = None
        self.messages = 0


class Policy:
    """Scenario-controlled target behaviour."""

    def __init__(self):
        self.accept_register = True
        self.accept_large_fo = True
        self.accept_std_fo = True
        self.max_large_size = 4002
        self.fo_refusal = (ST_CONN_FAIL, (0x0109,))
        self.mutate_reply = None      # callable(info: dict, frame: bytes) -> bytes | None (None = drop the reply)
        self.close_after_unregister = True
        self.list_identity_extra = b""   # a second CPF item (type, length, data) after the identity item, e.g. CIP Security 0x86
        # session-handle field of a TCP ListIdentity REPLY.  The command needs no session, many devices answer it with 0 whatever the
        # request carried; the field grants nothing, the client's session is the one RegisterSession returned: "echo" | "zero" | "other"
        self.list_identity_session = "echo"


class RefTarget:
    def __init__(self, rng, front, routes=None, policy=None, log=None):
        """front: Device answering the empty route; routes: {tuple of (port, link) hops: Device}"""
        self.rng = rng
        self.log = log or MonitorLog()
        self.front = front
        self.routes = dict(routes or {})
        self.routes.setdefault((), front)
        self.policy = policy or Policy()
        self.sessions = {}            # handle -> TcpConn
        self.connections = {}         # ot_id -> Connection
        self.triads = {}              # (csn, vid, vsn) -> Connection
        self.large_refused_ever = False
        self.fo_attempts = []         # (service, size, accepted)
        self.frame_log = []           # (direction, bytes) when record_frames
        self.record_frames = False
        self.reply_index = 0
        self.net = None

    # ---- fake-net endpoint API -------------------------------------------------------------------------------
    def accept(self, sock):
        return TcpConn(self, sock)

    def new_session_handle(self):
        # any non-zero 32-bit value is a legal handle: now and then one from the ends of the range (sign bit, all ones, 1)
        hint = getattr(self.policy, "next_session_handle", None)
        if hint and hint not in self.sessions:
            self.policy.next_session_handle = None
            return hint
        if self.rng.random() < 0.08:
            h = self.rng.choice([0x80000000, 0xFFFFFFFF, 0x00000001, 0x7FFFFFFF, 0x00010000, 0x80000001])
            if h not in self.sessions:
                return h
        while True:
            h = self.rng.getrandbits(32)
            if h and h not in self.sessions and h & 0xFF00FF00:
                return h

    def new_conn_id(self):
        # the target chooses the O->T connection id freely - including 0, the sign bit, all ones and one-byte patterns
        if self.rng.random() < 0.10:
            c = self.rng.choice([0x00000000, 0x00000001, 0x00000080, 0x00000100, 0x01000000, 0x80000000, 0xFFFFFFFF])
            if c not in self.connections:
                return c
        while True:
            c = self.rng.getrandbits(32)
            # never the values pycomm3 has as defaults
            if c and c not in self.connections and c.to_bytes(4, "little") not in (b"\x27\x04\x19\x71",):
                return c

    def device_for(self, route):
        return self.routes.get(tuple(route))

    def expire_connections(self):
        """The target's connection watchdog fired: it forgets every CIP connection (sessions stay).  A later Forward Close of
        such a connection is refused with 01/0107, and a connected message on its id is dropped."""
        self.connections.clear()
        self.triads.clear()

    # ---- UDP ListIdentity (discover) ----------------------------------------------------------------------------
    def udp(self, data, addr):
        # a datagram is one encapsulation frame too (C11): 24-byte header whose length field equals what follows, status / options 0
        log = self.log
        log.c("udp-datagrams")
        if len(data) < enc.HEADER:
            log.v("C11", "udp-frame-short", f"UDP datagram of {len(data)} bytes is shorter than an encapsulation header", bytes(data[:40]))
            return []
        if len(data) != enc.HEADER + enc.u16(data, 2):
            log.v("C11", "udp-frame-length", f"UDP datagram of {len(data)} bytes: the header announces {enc.u16(data, 2)} bytes after the 24-byte header, {len(data) - enc.HEADER} follow",
                  bytes(data[:40]))
        if enc.u16(data, 0) == enc.CMD_LIST_IDENTITY and (int.from_bytes(data[8:12], "little") or int.from_bytes(data[20:24], "little")):
            log.v("C11", "udp-nonzero-status-or-options", "broadcast ListIdentity with non-zero status or options", bytes(data[:40]))
        try:
            h = enc.parse_header(data)
        except enc.EncapError:
            return []
        if h["command"] != enc.CMD_LIST_IDENTITY:
            return []
        extra = self.policy.list_identity_extra
        body = (2 if extra else 1).to_bytes(2, "little") + self.front.identity.list_identity_item() + extra
        return [enc.build_frame(enc.CMD_LIST_IDENTITY, 0, body, context=h["context"])]


class TcpConn:
    def __init__(self, target, sock):
        self.t, self.sock = target, sock
        self.buf = bytearray()
        self.session = None
        self.closed = False
        self.registered_once = False
        self.session_acked = False   # the RegisterSession reply was actually read by the client

    # -- stream -> frames -------------------------------------------------------------------------------------------
    def feed(self, data):
        self.buf += data
        while len(self.buf) >= enc.HEADER:
            ln = enc.u16(self.buf, 2)
            if len(self.buf) < enc.HEADER + ln:
                break
            frame = bytes(self.buf[:enc.HEADER + ln])
            del self.buf[:enc.HEADER + ln]
            self.on_frame(frame)

    def client_closed(self):
        self.closed = True
        if self.buf:
            self.t.log.v("C11", "stream-ends-mid-frame", f"client closed the TCP connection with {len(self.buf)} bytes of an incomplete frame pending", bytes(self.buf[:64]))
        if self.session is not None:
            self.t.sessions.pop(self.session, None)
            self.session = None

    def peer_initiated_close(self):
        """the target closes this TCP connection itself: its session and the connections opened through it are gone"""
        t = self.t
        if self.session is not None:
            for cid, c in list(t.connections.items()):
                if c.session == self.session:
                    t.connections.pop(cid, None)
                    t.triads.pop(c.triad, None)
            t.sessions.pop(self.session, None)
            self.session = None
        self.closed = True

    def reply(self, info, frame):
        t = self.t
        t.reply_index += 1
        info["index"] = t.reply_index
        if t.policy.mutate_reply is not None:
            frame = t.policy.mutate_reply(info, frame)
            if frame is None:
                return
        if t.record_frames:
            t.frame_log.append(("reply", frame))
        self.sock.deliver(frame)
        conn = info.get("opened")
        if conn is not None:
            # acknowledged once the client has actually read the whole Forward Open reply (a transport fault may destroy it)
            if hasattr(self.sock, "on_drained"):
                self.sock.on_drained = lambda c=conn: setattr(c, "acknowledged", True)
            else:
                conn.acknowledged = True

    # -- frame monitor + dispatch -------------------------------------------------------------------------------------
    def on_frame(self, frame):
        t, log = self.t, self.t.log
        log.frames += 1
        if t.record_frames:
            t.frame_log.append(("request", frame))
        h = enc.parse_header(frame)
        body = frame[enc.HEADER:]
        cmd = h["command"]
        log.c(f"frames:cmd{cmd:#04x}")
        if cmd not in enc.KNOWN_CMDS:
            log.v("C11", "unknown-command", f"encapsulation command {cmd:#06x}", frame[:32])
            return self.reply({"kind": "encap-error"}, enc.build_frame(cmd, h["session"], status=0x01, context=h["context"]))
        if h["status"] != 0:
            log.v("C11", "nonzero-status", f"request carries encapsulation status {h['status']:#x}", frame[:32])
        if h["options"] != 0:
            log.v("C11", "nonzero-options", f"request carries options {h['options']:#x}", frame[:32])
        if cmd == enc.CMD_REGISTER:
            return self.register(h, body, frame)
        if cmd == enc.CMD_LIST_IDENTITY:
            if body:
                log.v("C11", "list-identity-body", f"ListIdentity with {len(body)} command-data bytes", frame[:40])
            # "the session handle granted by the target (zero only before registration)": once this connection has a session,
            # zero is as wrong as any other foreign handle (a stale frame built before registration, or for another session)
            # (a client that never read the RegisterSession reply - lost or damaged by a transport fault - has nothing but 0)
            granted_to_client = self.session if (self.session is not None and self.session_acked) else None
            if h["session"] == 0 and self.session is not None and not self.session_acked:
                log.c("list-identity-without-session")
            elif h["session"] != (granted_to_client if granted_to_client is not None else 0):
                log.v("C11", "wrong-session", f"ListIdentity carries session {h['session']:#x}, " +
                      (f"granted {self.session:#x}" if self.session is not None else "no session is registered on this connection"), frame[:32])
            extra = t.policy.list_identity_extra
            rbody = (2 if extra else 1).to_bytes(2, "little") + t.front.identity.list_identity_item() + extra
            mode = t.policy.list_identity_session
            rsess = h["session"] if mode == "echo" else 0 if mode == "zero" else ((h["session"] ^ 0x5A5A5A5A) & 0xFFFFFFFF) or 1
            log.c(f"list-identity-reply-session:{mode}")
            return self.reply({"kind": "list_identity"}, enc.build_frame(cmd, rsess, rbody, context=h["context"]))
        if cmd == enc.CMD_UNREGISTER:
            if body:
                log.v("C11", "unregister-body", f"UnRegisterSession with {len(body)} command-data bytes", frame[:40])
            if self.session is None or h["session"] != self.session:
                log.v("C11", "wrong-session", f"UnRegisterSession carries session {h['session']:#x}, granted {self.session}", frame[:32])
            else:
                t.sessions.pop(self.session, None)
                self.session = None
            if t.policy.close_after_unregister:
                self.sock.peer_close()
            return None
        if cmd in (enc.CMD_RRDATA, enc.CMD_UNITDATA):
            if self.session is None or h["session"] != self.session:
                name = "SendRRData" if cmd == enc.CMD_RRDATA else "SendUnitData"
                granted = "none" if self.session is None else hex(self.session)
                if h["session"] == 0 and (self.session is None or not self.session_acked) and cmd == enc.CMD_RRDATA:
                    # unconnected request after a failed registration: handle 0 "before registration" is all the client has
                    log.c("rrdata-without-session")
                else:
                    key = "session-zero-after-registration" if (h["session"] == 0 and self.session) else "unregistered-session"
                    log.v("C11", key, f"{name} carries session {h['session']:#x}; target granted {granted}", frame[:32])
                if cmd == enc.CMD_UNITDATA:
                    log.v("C10", "connected-data-before-session", f"SendUnitData sent with session {h['session']:#x} while the registered session is {granted}", frame[:32])
                return self.reply({"kind": "encap-error"}, enc.build_frame(cmd, h["session"], status=0x64, context=h["context"]))
            return self.data_command(cmd, h, body, frame)
        # NOP / ListServices / ListInterfaces: not used by the library; answer minimally
        if cmd == enc.CMD_NOP:
            return None
        return self.reply({"kind": "other"}, enc.build_frame(cmd, h["session"], (0).to_bytes(2, "little"), context=h["context"]))

    def register(self, h, body, frame):
        t, log = self.t, self.t.log
        if h["session"] != 0:
            log.v("C11", "register-with-session", f"RegisterSession carries session handle {h['session']:#x} (must be 0)", frame[:32])
        if len(body) != 4:
            log.v("C11", "register-length", f"RegisterSession command data is {len(body)} bytes (must be 4)", frame[:40])
            return self.reply({"kind": "register"}, enc.build_frame(enc.CMD_REGISTER, 0, status=0x65, context=h["context"]))
        if enc.u16(body, 0) != 1 or enc.u16(body, 2) != 0:
            log.v("C11", "register-version", f"RegisterSession protocol version {enc.u16(body, 0)} options {enc.u16(body, 2)} (must be 1, 0)", frame[:40])
            return self.reply({"kind": "register"}, enc.build_frame(enc.CMD_REGISTER, 0, body, status=0x69, context=h["context"]))
        if not t.policy.accept_register:
            # a refusing target grants nothing; the handle field of its error reply is not a grant (it may hold anything)
            junk = t.rng.choice([0, 0, t.rng.getrandbits(32) | 1])
            return self.reply({"kind": "register"}, enc.build_frame(enc.CMD_REGISTER, junk, body, status=t.rng.choice([0x02, 0x69, 0x01]), context=h["context"]))
        if self.session is not None:
            return self.reply({"kind": "register"}, enc.build_frame(enc.CMD_REGISTER, self.session, body, context=h["context"]))
        self.session = t.new_session_handle()
        t.sessions[self.session] = self
        log.c("sessions-registered")
        self.session_acked = False
        out = self.reply({"kind": "register"}, enc.build_frame(enc.CMD_REGISTER, self.session, body, context=h["context"]))
        if hasattr(self.sock, "on_drained") and self.sock.rx:
            self.sock.on_drained = lambda: setattr(self, "session_acked", True)
        else:
            self.session_acked = True
        return out

    def data_command(self, cmd, h, body, frame):
        t, log = self.t, self.t.log
        name = "SendRRData" if cmd == enc.CMD_RRDATA else "SendUnitData"
        try:
            iface, timeout, items = enc.parse_cpf(body)
        except enc.EncapError as e:
            log.v("C11", e.key, f"{name}: {e}", frame[:80])
            return self.reply({"kind": "encap-error"}, enc.build_frame(cmd, h["session"], status=0x03, context=h["context"]))
        if iface != 0:
            log.v("C11", "interface-handle", f"{name}: interface handle {iface:#x} (must be 0)", frame[:40])
        if len(items) != 2:
            log.v("C11", "item-count", f"{name}: {len(items)} items (address + data expected)", frame[:80])
            return self.reply({"kind": "encap-error"}, enc.build_frame(cmd, h["session"], status=0x03, context=h["context"]))
        (at, ad), (dt, dd) = items
        if cmd == enc.CMD_RRDATA:
            if at != enc.ITEM_NULL or ad != b"":
                log.v("C11", "rr-address-item", f"SendRRData address item type {at:#06x} length {len(ad)} (null address expected)", frame[:60])
            if dt != enc.ITEM_UNCONN_DATA:
                log.v("C11", "rr-data-item", f"SendRRData data item type {dt:#06x} (0x00B2 expected)", frame[:60])
                return self.reply({"kind": "encap-error"}, enc.build_frame(cmd, h["session"], status=0x03, context=h["context"]))
            return self.unconnected(h, dd)
        if at != enc.ITEM_CONN_ADDR or len(ad) != 4:
            log.v("C11", "unit-address-item", f"SendUnitData address item type {at:#06x} length {len(ad)} (0x00A1 / 4 expected)", frame[:60])
            return self.reply({"kind": "encap-error"}, enc.build_frame(cmd, h["session"], status=0x03, context=h["context"]))
        if dt != enc.ITEM_CONN_DATA:
            log.v("C11", "unit-data-item", f"SendUnitData data item type {dt:#06x} (0x00B1 expected)", frame[:60])
            return self.reply({"kind": "encap-error"}, enc.build_frame(cmd, h["session"], status=0x03, context=h["context"]))
        return self.connected(h, int.from_bytes(ad, "little"), dd, frame)

    # -- message router request parsing -----------------------------------------------------------------------------------
    def parse_mr(self, msg, transport):
        """-> (service, path_bytes, segs, data) or a (status, ext) error tuple; records C09 path violations"""
        log = self.t.log
        if len(msg) < 2:
            log.v("C11", "mr-too-short", f"{transport} message-router request of {len(msg)} bytes", msg)
            return None
        service, words = msg[0], msg[1]
        if service & 0x80:
            log.v("C11", "mr-reply-bit", f"request service code {service:#x} has the reply bit set", msg[:16])
        if 2 + 2 * words > len(msg):
            log.v("C09", "path-size", f"request path size {words} words exceeds the {len(msg) - 2} bytes that follow (service {service:#x})", msg[:40])
            return None
        path = msg[2:2 + 2 * words]
        try:
            segs = rp.parse_padded(path)
        except rp.PathError as e:
            log.v("C09", "malformed-path", f"request path {path.hex()} (service {service:#x}, {transport}): {e}", msg[:60])
            return None
        log.c("paths-parsed")
        return service, path, [s[:3] for s in segs], msg[2 + 2 * words:]

    # -- UCMM ------------------------------------------------------------------------------------------------------------------
    def unconnected(self, h, msg):
        t, log = self.t, self.t.log
        parsed = self.parse_mr(msg, "ucmm")
        if parsed is None:
            svc = msg[0] if msg else 0
            return self.rr_reply(h, mr_reply(svc & 0x7F, ST_PATH_SYNTAX), {"kind": "rr", "service": svc})
        service, path, segs, data = parsed
        is_cm = segs[:2] == [("logical", "class", 0x06), ("logical", "instance", 0x01)]
        if is_cm and service in (0x54, 0x5B):
            return self.forward_open(h, service, data)
        if is_cm and service == 0x4E:
            return self.forward_close(h, data)
        if is_cm and service == 0x52:
            return self.unconnected_send(h, data)
        rq = MRRequest(service, path, segs, data, "ucmm", route=())
        status, ext, rdata = t.front.handle(rq)
        return self.rr_reply(h, mr_reply(service, status, ext, rdata), {"kind": "rr", "service": service, "transport": "ucmm"})

    def rr_reply(self, h, mr, info, extra_items=()):
        body = enc.build_cpf([(enc.ITEM_NULL, b""), (enc.ITEM_UNCONN_DATA, mr)] + list(extra_items))
        info.setdefault("mr_offset", enc.HEADER + 16)
        return self.reply(info, enc.build_frame(enc.CMD_RRDATA, h["session"], body, context=h["context"]))

    def parse_route(self, b, what, pad_after_size):
        """route path with size prefix -> list of (port, link) ; link int or str"""
        log = self.t.log
        try:
            segs, used = rp.parse_sized(b, pad_after_size=pad_after_size)
        except rp.PathError as e:
            log.v("C09", "malformed-route", f"{what} route {bytes(b).hex()}: {e}", bytes(b[:60]))
            return None, 0
        log.c("routes-parsed")
        return segs, used

    def unconnected_send(self, h, data):
        t, log = self.t, self.t.log
        info = {"kind": "rr", "service": 0x52, "transport": "unconnected_send"}
        if len(data) < 4:
            log.v("C14", "unconnected-send-short", f"Unconnected Send request data of {len(data)} bytes", data)
            return self.rr_reply(h, mr_reply(0x52, ST_NOT_ENOUGH), info)
        size = enc.u16(data, 2)
        o = 4
        if o + size > len(data):
            log.v("C14", "unconnected-send-length", f"Unconnected Send embedded message length {size} exceeds the {len(data) - o} bytes present", data[:60])
            return self.rr_reply(h, mr_reply(0x52, ST_NOT_ENOUGH), info)
        emb = data[o:o + size]
        o += size
        if size % 2:
            if o >= len(data) or data[o] != 0:
                log.v("C14", "unconnected-send-pad", f"Unconnected Send: odd embedded length {size} not followed by a zero pad byte", data[:80])
                return self.rr_reply(h, mr_reply(0x52, ST_PATH_SYNTAX), info)
            o += 1
        rsegs, used = self.parse_route(data[o:], "Unconnected Send", pad_after_size=True)
        if rsegs is None:
            return self.rr_reply(h, mr_reply(0x52, ST_CONN_FAIL, (0x0315,)), info)
        if o + used != len(data):
            log.v("C14", "unconnected-send-trailing", f"Unconnected Send: {len(data) - o - used} bytes after the route path (embedded length/pad/route sizes disagree)", data[:80])
            return self.rr_reply(h, mr_reply(0x52, ST_TOO_MUCH), info)
        if any(s[0] != "port" for s in rsegs):
            log.v("C14", "unconnected-send-route", f"Unconnected Send route holds non-port segments {rsegs!r}", data[:80])
            return self.rr_reply(h, mr_reply(0x52, ST_CONN_FAIL, (0x0315,)), info)
        route = tuple((s[1], s[2] if isinstance(s[2], int) else s[2].decode("ascii")) for s in rsegs)
        dev = t.device_for(route)
        log.c("unconnected-send")
        if dev is None:
            return self.rr_reply(h, mr_reply(0x52, ST_CONN_FAIL, (0x0311 if route and route[0][0] not in (1, 2, 3) else 0x0312,)), dict(info, unroutable=route))
        parsed = self.parse_mr(emb, "unconnected_send")
        if parsed is None:
            return self.rr_reply(h, mr_reply((emb[0] if emb else 0) & 0x7F, ST_PATH_SYNTAX), info)
        service, path, segs, edata = parsed
        rq = MRRequest(service, path, segs, edata, "unconnected_send", route=route)
        status, ext, rdata = dev.handle(rq)
        info["service"] = service
        return self.rr_reply(h, mr_reply(service, status, ext, rdata), info)

    # -- Connection Manager -------------------------------------------------------------------------------------------------------
    def forward_open(self, h, service, data):
        t, log, pol = self.t, self.t.log, self.t.policy
        large = service == 0x5B
        info = {"kind": "rr", "service": service, "transport": "forward_open"}
        need = 36 + (8 if large else 4)
        if len(data) < need:
            log.v("C10", "forward-open-short", f"Forward Open request data of {len(data)} bytes (< {need})", data[:60])
            return self.rr_reply(h, mr_reply(service, ST_NOT_ENOUGH), info)
        o = 2
        ot_req, to_req = enc.u32(data, o), enc.u32(data, o + 4)
        triad = (enc.u16(data, 10), enc.u16(data, 12), enc.u32(data, 14))
        o = 22
        ot_rpi = enc.u32(data, o)
        o += 4
        if large:
            ot_par = enc.u32(data, o)
            o += 4
            to_rpi = enc.u32(data, o)
            o += 4
            to_par = enc.u32(data, o)
            o += 4
            ot_size, to_size = ot_par & 0xFFFF, to_par & 0xFFFF
        else:
            ot_par = enc.u16(data, o)
            o += 2
            to_rpi = enc.u32(data, o)
            o += 4
            to_par = enc.u16(data, o)
            o += 2
            ot_size, to_size = ot_par & 0x1FF, to_par & 0x1FF
        transport_class = data[o]
        o += 1
        segs, used = self.parse_route(data[o:], "Forward Open connection path", pad_after_size=False)
        t.fo_attempts.append((service, ot_size))
        log.c(f"forward-open:{'large' if large else 'standard'}")
        # ---- lifecycle monitor: extended first (size 4000), then standard with 500 -------------------------------
        if large:
            if ot_size != 4000 or to_size != 4000:
                log.v("C10", "large-forward-open-size", f"Large Forward Open asks for connection sizes {ot_size}/{to_size} (4000 expected)", data[:60])
        else:
            if not t.large_refused_ever:
                log.v("C10", "standard-forward-open-first", "standard Forward Open attempted although no Large Forward Open was refused before", data[:60])
            if ot_size != 500 or to_size != 500:
                log.v("C10", "standard-forward-open-size", f"standard Forward Open asks for connection sizes {ot_size}/{to_size} (500 expected)", data[:60])
        if segs is None:
            return self.rr_reply(h, mr_reply(service, ST_CONN_FAIL, (0x0315,)), info)
        if o + used != len(data):
            log.v("C11", "forward-open-trailing", f"{len(data) - o - used} bytes after the Forward Open connection path", data[-40:])
        if segs[-2:] != [("logical", "class", 2, 1), ("logical", "instance", 1, 1)] and [s[:3] for s in segs[-2:]] != [("logical", "class", 2), ("logical", "instance", 1)]:
            log.v("C15", "connection-path-no-router", f"Forward Open connection path {segs!r} does not end at the message router (class 2, instance 1)", data[o:o + 60])
            return self.rr_reply(h, mr_reply(service, ST_CONN_FAIL, (0x0315,)), info)
        rsegs = segs[:-2]
        if any(s[0] != "port" for s in rsegs):
            log.v("C09", "connection-path-not-route-plus-router", f"Forward Open connection path {segs!r}: segments other than port segments before the message router", data[o:o + 60])
            return self.rr_reply(h, mr_reply(service, ST_CONN_FAIL, (0x0315,)), info)
        route = tuple((s[1], s[2] if isinstance(s[2], int) else s[2].decode("ascii")) for s in rsegs)
        dev = t.device_for(route)
        if dev is None:
            if large:
                t.large_refused_ever = True
            return self.rr_reply(h, mr_reply(service, ST_CONN_FAIL, (0x0312,)), dict(info, unroutable=route))
        refuse = (large and (not pol.accept_large_fo or ot_size > pol.max_large_size)) or (not large and not pol.accept_std_fo)
        if refuse:
            if large:
                t.large_refused_ever = True
            st, ext = pol.fo_refusal
            # unsuccessful Forward Open reply: triad + remaining path size + reserved
            rdata = data[10:18] + b"\x00\x00"
            return self.rr_reply(h, mr_reply(service, st, ext, rdata), dict(info, refused=True))
        if triad in t.triads:
            if large:
                t.large_refused_ever = True
            return self.rr_reply(h, mr_reply(service, ST_CONN_FAIL, (0x0100,), data[10:18] + b"\x00\x00"), dict(info, refused=True))
        ot_id = t.new_conn_id()
        conn = Connection(ot_id, to_req, triad, ot_size, dev, route, self.session, large)
        t.connections[ot_id] = conn
        t.triads[triad] = conn
        log.c("connections-opened")
        # a successful reply ends with the application-reply size (in words) and a reserved byte; a target may append application
        # reply data there, and may add Sockaddr Info items to the common packet (CIP Vol 2, 3-3): both are the target's choice
        app_words = t.rng.choice([1, 2, 3]) if t.rng.random() < 0.15 else 0
        rdata = (ot_id.to_bytes(4, "little") + to_req.to_bytes(4, "little") + data[10:18] + ot_rpi.to_bytes(4, "little")
                 + to_rpi.to_bytes(4, "little") + bytes([app_words, 0]) + bytes(t.rng.getrandbits(8) for _ in range(2 * app_words)))
        extra = []
        if t.rng.random() < 0.10:
            extra = [(0x8000, (2).to_bytes(2, "big") + (2222).to_bytes(2, "big") + bytes([239, 192, 1, 32]) + bytes(8))]
            log.c("forward-open-replies-with-a-sockaddr-item")
        if app_words:
            log.c("forward-open-replies-with-application-data")
        return self.rr_reply(h, mr_reply(service, ST_OK, (), rdata), dict(info, opened=conn), extra_items=extra)

    def forward_close(self, h, data):
        t, log = self.t, self.t.log
        info = {"kind": "rr", "service": 0x4E, "transport": "forward_close"}
        if len(data) < 12:
            log.v("C10", "forward-close-short", f"Forward Close request data of {len(data)} bytes", data)
            return self.rr_reply(h, mr_reply(0x4E, ST_NOT_ENOUGH), info)
        triad = (enc.u16(data, 2), enc.u16(data, 4), enc.u32(data, 6))
        segs, used = self.parse_route(data[10:], "Forward Close connection path", pad_after_size=True)
        if segs is not None and 10 + used != len(data):
            log.v("C11", "forward-close-trailing", f"{len(data) - 10 - used} bytes after the Forward Close connection path", data[-40:])
        conn = t.triads.get(triad)
        log.c("forward-close")
        if conn is None:
            return self.rr_reply(h, mr_reply(0x4E, ST_CONN_FAIL, (0x0107,), data[2:10] + b"\x00\x00"), info)
        if segs is not None:
            route = tuple((s[1], s[2] if isinstance(s[2], int) else s[2].decode("ascii")) for s in segs if s[0] == "port")
            if route != conn.route:
                log.v("C15", "forward-close-route", f"Forward Close names route {route!r}, the connection was opened over {conn.route!r}", data[10:60])
        del t.triads[triad]
        t.connections.pop(conn.ot_id, None)
        log.c("connections-closed")
        return self.rr_reply(h, mr_reply(0x4E, ST_OK, (), data[2:10] + b"\x00\x00"), info)

    # -- class 3 connected messaging ----------------------------------------------------------------------------------------------
    def connected(self, h, conn_id, item, frame):
        t, log = self.t, self.t.log
        conn = t.connections.get(conn_id)
        if conn is None:
            log.v("C11", "unknown-connection-id", f"connected address item carries id {conn_id:#010x}; target granted {[hex(c) for c in t.connections]}", frame[:60])
            log.v("C10", "connected-before-forward-open", f"connected message on id {conn_id:#010x} for which no Forward Open succeeded", frame[:60])
            return None  # a real target silently drops it: the client times out
        if not conn.acknowledged:
            log.v("C10", "connected-before-forward-open-reply", "connected message sent before the Forward Open reply was delivered", frame[:60])
        if conn.session != self.session:
            log.v("C10", "connection-of-other-session", "connected message on a connection that belongs to another session", frame[:60])
        if len(item) < 2:
            log.v("C11", "connected-item-without-sequence", f"connected data item of {len(item)} bytes has no sequence count", frame[:60])
            return None
        log.c("connected-messages")
        conn.messages += 1
        if len(item) > conn.size:
            log.v("C04", "request-exceeds-connection-size", f"connected data item of {len(item)} bytes on a connection negotiated for {conn.size}", {"len": len(item), "size": conn.size, "head": item[:40]})
        seq = enc.u16(item, 0)
        if conn.last_seq is not None and seq == conn.last_seq:
            log.v("C17", "repeated-sequence-count", f"connected message #{conn.messages} repeats sequence count {seq} of the previous message", {"seq": seq, "head": item[:24]})
            if conn.last_reply is not None:  # duplicate detection: replay the cached reply, do not execute
                return self.unit_reply(h, conn, seq, conn.last_reply, {"kind": "unit", "replayed": True})
        if conn.last_seq is not None and seq < conn.last_seq:
            log.c("sequence-wraps")
        conn.last_seq = seq
        msg = item[2:]
        if len(item) > conn.size:
            svc = msg[0] if msg else 0
            mr = mr_reply(svc & 0x7F, ST_TOO_MUCH)
            conn.last_reply = mr
            return self.unit_reply(h, conn, seq, mr, {"kind": "unit", "service": svc})
        parsed = self.parse_mr(msg, "connected")
        if parsed is None:
            # "connected data beginning with the sequence count": what follows the first two bytes is not a message-router request
            # (service, path size, padded path) - the item does not have the layout count + request
            log.v("C11", "connected-data-not-count-plus-request", f"connected data item of {len(item)} bytes: after the first two bytes (taken as sequence count {seq}) "
                  f"no well-formed request follows", item[:48])
            svc = msg[0] if msg else 0
            mr = mr_reply(svc & 0x7F, ST_PATH_SYNTAX)
            conn.last_reply = mr
            return self.unit_reply(h, conn, seq, mr, {"kind": "unit", "service": svc})
        service, path, segs, data = parsed
        rq = MRRequest(service, path, segs, data, "connected", route=conn.route, conn=conn, capacity=conn.size - 2 - 4)
        status, ext, rdata = conn.device.handle(rq)
        mr = mr_reply(service, status, ext, rdata)
        if 2 + len(mr) > conn.size:
            if getattr(conn.device, "obeys_capacity", False):
                log.v("C04", "target-internal-oversize-reply", f"reference target built a {2 + len(mr)}-byte reply for a {conn.size}-byte connection (harness bug)", None)
            else:
                # the connection size was negotiated in the Forward Open: an answer that does not fit is not sent, the request fails
                # with "reply data too large" (a client that asked for a smaller connection than its requests need finds out here)
                log.c("replies-refused-as-too-large-for-the-connection")
                mr = mr_reply(service, 0x11, (), b"")
        conn.last_reply = mr
        return self.unit_reply(h, conn, seq, mr, {"kind": "unit", "service": service, "transport": "connected"})

    def unit_reply(self, h, conn, seq, mr, info):
        body = enc.build_cpf([(enc.ITEM_CONN_ADDR, conn.to_id.to_bytes(4, "little")), (enc.ITEM_CONN_DATA, seq.to_bytes(2, "little") + mr)])
        info.setdefault("mr_offset", enc.HEADER + 22)
        return self.reply(info, enc.build_frame(enc.CMD_UNITDATA, h["session"], body, context=bytes(8)))


def selftest():
    """drive the target with a tiny independent client: register, identity via UCMM, forward open, connected message, close"""
    import random

    class Sock:
        def __init__(self):
            self.rx = bytearray()
            self.closed = False

        def deliver(self, b):
            self.rx += b

        def peer_close(self):
            self.closed = True

        def take(self):
            b = bytes(self.rx)
            self.rx.clear()
            return b

    n = 0
    rng = random.Random(1)
    log = MonitorLog()
    dev = Device(Identity(), rng, log)
    dev.responder = lambda rq: (0, (), b"\x0c\x00pycomm3_demo" + bytes(4)) if rq.logical("class") == 0x64 else (5, (), b"")
    t = RefTarget(rng, front=dev, routes={((1, 0),): dev}, log=log)
    s = Sock()
    c = t.accept(s)
    # the RegisterSession request captured in docs/getting_started.rst
    c.feed(bytes.fromhex("650004000000000000000000 5f7079636f6d6d5f 00000000 01000000".replace(" ", "")))
    r = s.take()
    sess = enc.u32(r, 4)
    assert enc.u16(r, 0) == 0x65 and sess != 0 and enc.u32(r, 8) == 0 and r[24:] == b"\x01\x00\x00\x00"; n += 1
    # ListIdentity
    c.feed(enc.build_frame(0x63, sess))
    r = s.take()
    assert enc.u16(r, 0) == 0x63 and enc.u16(r, 26) == 0x000C and r[-1] == 3; n += 1
    # identity through Unconnected Send to backplane slot 0
    emb = b"\x01\x02\x20\x01\x24\x01"
    us = b"\x52\x02\x20\x06\x24\x01\x0a\x05" + len(emb).to_bytes(2, "little") + emb + b"\x01\x00\x01\x00"
    c.feed(enc.build_frame(0x6F, sess, enc.build_cpf([(0, b""), (0xB2, us)])))
    r = s.take()
    assert r[40] == 0x81 and r[42] == 0 and r[44:] == dev.identity.object_bytes(); n += 1
    # Large Forward Open over bp/0
    fo = (b"\x0a\x05" + bytes(4) + b"\x11\x22\x33\x44" + b"\x27\x04" + b"\x09\x10" + b"\x01\x02\x03\x04" + b"\x07" + bytes(3)
          + b"\x01\x40\x20\x00" + ((0x4200 << 16) | 4000).to_bytes(4, "little") + b"\x01\x40\x20\x00" + ((0x4200 << 16) | 4000).to_bytes(4, "little")
          + b"\xa3" + b"\x03\x01\x00\x20\x02\x24\x01")
    c.feed(enc.build_frame(0x6F, sess, enc.build_cpf([(0, b""), (0xB2, b"\x5b\x02\x20\x06\x24\x01" + fo)])))
    r = s.take()
    assert r[40] == 0xDB and r[42] == 0, r[40:48].hex()
    ot = r[44:48]
    assert r[48:52] == b"\x11\x22\x33\x44"; n += 1
    # connected get_plc_name exactly as captured in docs/usage/cipdriver.rst (sequence 0x53)
    c.feed(enc.build_frame(0x70, sess, enc.build_cpf([(0xA1, ot), (0xB1, bytes.fromhex("5300010220642401"))], timeout=10)))
    r = s.take()
    assert enc.u16(r, 0) == 0x70 and r[36:40] == b"\x11\x22\x33\x44" and r[44:46] == b"\x53\x00" and r[46] == 0x81 and r[48] == 0
    assert r[50:52] == b"\x0c\x00" and r[52:64] == b"pycomm3_demo"; n += 1
    # forward close, unregister
    fc = b"\x0a\x05" + b"\x27\x04" + b"\x09\x10" + b"\x01\x02\x03\x04" + b"\x03\x00\x01\x00\x20\x02\x24\x01"
    c.feed(enc.build_frame(0x6F, sess, enc.build_cpf([(0, b""), (0xB2, b"\x4e\x02\x20\x06\x24\x01" + fc)])))
    r = s.take()
    assert r[40] == 0xCE and r[42] == 0 and not t.connections; n += 1
    c.feed(enc.build_frame(0x66, sess))
    assert not t.sessions and s.closed; n += 1
    assert not log.violations, log.violations
    # monitors fire on malformed traffic
    s2 = Sock()
    c2 = t.accept(s2)
    c2.feed(enc.build_frame(0x6F, 0x1234, enc.build_cpf([(0, b""), (0xB2, b"\x01\x02\x20\x01\x24\x01")])))
    assert any(v[0] == "C11" for v in log.violations) and enc.u32(s2.take(), 8) == 0x64; n += 1
    return n
