"""Scenario bench: real pycomm3 drivers on top of the fake OS socket wired to a reference target."""
import sys

from . import fakesock, reftarget
from .monitors import BudgetExceeded


class ScenarioDead(Exception):
    """raised by Bench.call once a public call blew its step budget: the scenario cannot continue"""


# benches whose scenario died in this process: (operation that overran its budget, bench).  A check usually abandons such a
# scenario with `except ScenarioDead: continue`; the monitor log of the bench would be lost with it.
DEAD_BENCHES = []


class SpinGuard:
    """A public call that spins inside the library WITHOUT touching the socket never reaches the socket-operation budget; it would
    end in the shard's wall-clock watchdog, i.e. 'inconclusive'.  The verdict must not come from a clock, so the clock only decides
    when to START COUNTING: after `grace` seconds inside one call a SIGALRM arms a LINE-event budget (sys.monitoring); if the call
    then executes `limit` further library lines without returning, BudgetExceeded ends it - a logical-step verdict.  The largest
    legitimate calls of the checks (tens of thousands of tags in one read) execute a few million lines."""

    def __init__(self, grace=30.0, limit=60_000_000):
        self.grace, self.limit = grace, limit
        self.budget = None
        self.ok = False
        try:
            import signal
            import threading
            self.signal = signal
            self.ok = threading.current_thread() is threading.main_thread() and hasattr(signal, "setitimer")
        except Exception:  # noqa
            self.ok = False

    def _on_alarm(self, signum, frame):
        from .monitors import StepBudget
        try:
            if self.budget is None:
                self.budget = StepBudget().start()
            self.budget.begin(self.limit)
        except Exception:  # noqa - tool id taken by a check's own budget: that budget already guards the call
            self.budget = None

    def enter(self):
        if self.ok:
            self.prev = self.signal.signal(self.signal.SIGALRM, self._on_alarm)
            self.signal.setitimer(self.signal.ITIMER_REAL, self.grace)

    def leave(self):
        if self.ok:
            self.signal.setitimer(self.signal.ITIMER_REAL, 0)
            self.signal.signal(self.signal.SIGALRM, self.prev)
            if self.budget is not None:
                self.budget.end()


SPIN_GUARD = SpinGuard()


class Bench:
    def __init__(self, rng, host="192.168.1.236", port=44818):
        self.rng = rng
        self.host, self.port = host, port
        self.net = fakesock.FakeNet().install()
        self.log = reftarget.MonitorLog()
        self.target = None
        self.calls = []      # client-boundary history: (step, 'call'|'ret'|'exc', op, detail)
        self.step = 0
        self.dead = False
        self._patch_urandom()

    def _patch_urandom(self):
        mod = sys.modules.get("pycomm3.cip_driver")
        rng = self.rng
        if mod is not None and hasattr(mod, "urandom"):
            given = set()

            def urandom(n):
                # what os.urandom may return, the rare values included: all ones, all zeros, values next to the top of the range -
                # but never the same 4+ bytes twice on one bench: two drivers drawing the same 32-bit serial / connection id is a
                # 2^-32 event the library need not survive (the target rightly refuses a duplicate connection triad)
                r = rng.random()
                if r < 0.10:
                    out = b"\xff" * n
                elif r < 0.16:
                    out = b"\x00" * n
                elif r < 0.24:
                    out = (rng.choice([0xFFFE, 0xFFFA, 0xFFF0, 0xFF00, 0x8000, 1])).to_bytes(2, "little") * (n // 2) + b"\xff" * (n % 2)
                else:
                    out = bytes(rng.randrange(256) for _ in range(n))
                while n >= 4 and out in given:
                    out = bytes(rng.randrange(256) for _ in range(n))
                given.add(out)
                return out
            mod.urandom = urandom

    def set_target(self, target, host=None, port=None):
        self.target = target
        target.net = self.net
        self.net.endpoints[(host or self.host, port or self.port)] = target
        self.net.udp_handler = target.udp
        return target

    def simple_target(self, identity=None, routes=("bp0",), policy=None, device_cls=None, **dev_kw):
        ident = identity or reftarget.Identity()
        cls = device_cls or reftarget.Device
        dev = cls(ident, self.rng, self.log, **dev_kw)
        rts = {}
        for r in routes:
            rts[((1, 0),) if r == "bp0" else tuple(r)] = dev
        t = reftarget.RefTarget(self.rng, front=dev, routes=rts, policy=policy, log=self.log)
        self.set_target(t)
        return t, dev

    def call(self, op, fn, *a, **kw):
        """client-boundary recording: call event before invoking, return/exception event after"""
        if self.dead:
            raise ScenarioDead()
        self.step += 1
        self.calls.append((self.step, "call", op))
        self.net.call_ops = 0
        SPIN_GUARD.enter()
        try:
            try:
                out = fn(*a, **kw)
            finally:
                SPIN_GUARD.leave()
        except BudgetExceeded as e:
            # the call did not finish within its logical step budget: the driver is unusable from here on
            self.calls.append((self.step, "budget", op))
            self.dead = True
            DEAD_BENCHES.append((op, self))   # run_check.py hands over what the wire monitors saw before the scenario died
            return ("budget", e)
        except Exception as e:  # noqa
            self.calls.append((self.step, "exc", op, type(e).__name__))
            return ("exc", e)
        self.calls.append((self.step, "ret", op))
        return ("ok", out)

    def close(self):
        fakesock.FakeNet.uninstall()
