"""Scenario bench: real pycomm3 drivers on top of the fake OS socket wired to a reference target."""
import sys

from . import fakesock, reftarget
from .monitors import BudgetExceeded


class ScenarioDead(Exception):
    """raised by Bench.call once a public call blew its step budget: the scenario cannot continue"""


# benches whose scenario died in this process: (operation that overran its budget, bench).  A check usually abandons such a
# scenario with `except ScenarioDead: continue`; the monitor log of the bench would be lost with it.
DEAD_BENCHES = []


class Bench:
    def __init__(self, rng, host="192.168.1.236", port=44818):
        self.rng = rng
        self.host, self.port = host, port
        self.net = fakesock.FakeNet().install()
        self.log = reftarget.MonitorLog()
        self.target = None
        self.calls = []      # client-boundary history: (step, 'call'|'ret'|'exc', op, detail)
        self.step = 0
        self.dead = False
        self._patch_urandom()

    def _patch_urandom(self):
        mod = sys.modules.get("pycomm3.cip_driver")
        rng = self.rng
        if mod is not None and hasattr(mod, "urandom"):
            mod.urandom = lambda n: bytes(rng.randrange(256) for _ in range(n))

    def set_target(self, target, host=None, port=None):
        self.target = target
        target.net = self.net
        self.net.endpoints[(host or self.host, port or self.port)] = target
        self.net.udp_handler = target.udp
        return target

    def simple_target(self, identity=None, routes=("bp0",), policy=None, device_cls=None, **dev_kw):
        ident = identity or reftarget.Identity()
        cls = device_cls or reftarget.Device
        dev = cls(ident, self.rng, self.log, **dev_kw)
        rts = {}
        for r in routes:
            rts[((1, 0),) if r == "bp0" else tuple(r)] = dev
        t = reftarget.RefTarget(self.rng, front=dev, routes=rts, policy=policy, log=self.log)
        self.set_target(t)
        return t, dev

    def call(self, op, fn, *a, **kw):
        """client-boundary recording: call event before invoking, return/exception event after"""
        if self.dead:
            raise ScenarioDead()
        self.step += 1
        self.calls.append((self.step, "call", op))
        self.net.call_ops = 0
        try:
            out = fn(*a, **kw)
        except BudgetExceeded as e:
            # the call did not finish within its logical step budget: the driver is unusable from here on
            self.calls.append((self.step, "budget", op))
            self.dead = True
            DEAD_BENCHES.append((op, self))   # run_check.py hands over what the wire monitors saw before the scenario died
            return ("budget", e)
        except Exception as e:  # noqa
            self.calls.append((self.step, "exc", op, type(e).__name__))
            return ("exc", e)
        self.calls.append((self.step, "ret", op))
        return ("ok", out)

    def close(self):
        fakesock.FakeNet.uninstall()
