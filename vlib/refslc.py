"""Reference SLC / MicroLogix target: PCCC object (class 0x67, Execute PCCC 0x4B) with protected typed logical
read (FNC 0xA2) / masked write (FNC 0xAB, three address fields) over a data-table model, plus an independent
recogniser of the data-file address grammar.  Sources: DF1 Protocol and Command Set (1770-RM516), SLC 500
reference.  Independent of pycomm3."""
import re
import struct

from . import reftarget as rt

FILE_TYPE_CODES = {0x89: "N", 0x85: "B", 0x86: "T", 0x87: "C", 0x84: "S", 0x8A: "F", 0x8D: "ST", 0x8E: "A", 0x88: "R",
                   0x82: "O", 0x8B: "O", 0x83: "I", 0x8C: "I", 0x91: "L"}
WORDS_PER_ELEMENT = {"N": 1, "B": 1, "S": 1, "I": 1, "O": 1, "A": 1, "F": 2, "L": 2, "T": 3, "C": 3, "R": 3}
CT_BITS = {"T": {"EN": 15, "TT": 14, "DN": 13}, "C": {"CU": 15, "CD": 14, "DN": 13, "OV": 12, "UN": 11, "UA": 10}}
STS_OK, STS_ILLEGAL, STS_ADDRESS = 0x00, 0x10, 0x50


class DataTable:
    """files: {number: (type letter, list of 16-bit words)}; I/O files: {number: (type, {(element, word): value})}"""

    def __init__(self):
        self.files = {}

    @classmethod
    def random(cls, rng, nelem=256, short=False):
        """short=True: some of the extra files hold fewer than 256 elements (the controller then answers addresses past the
        end with an error status)"""
        t = cls()

        class _W:
            """random words, one in six an edge value: an idle timer has PRE / ACC 0, a cleared file is all zeros, -1 and the sign bit
            alone are what signedness mistakes turn on (a uniformly random word is 0 once in 65536)"""
            @staticmethod
            def getrandbits(_n):
                return rng_.choice([0, 0, 0, 1, 0x7FFF, 0x8000, 0xFFFF]) if rng_.random() < 0.17 else rng_.getrandbits(16)
        rng_ = rng
        rng = _W
        t.files[0] = ("O", [rng.getrandbits(16) for _ in range(nelem * 4)])
        t.files[1] = ("I", [rng.getrandbits(16) for _ in range(nelem * 4)])
        t.files[2] = ("S", [rng.getrandbits(16) for _ in range(nelem)])
        t.files[3] = ("B", [rng.getrandbits(16) for _ in range(nelem)])
        t.files[4] = ("T", [rng.getrandbits(16) for _ in range(nelem * 3)])
        t.files[5] = ("C", [rng.getrandbits(16) for _ in range(nelem * 3)])
        t.files[7] = ("N", [rng.getrandbits(16) for _ in range(nelem)])
        t.files[8] = ("F", [rng.getrandbits(16) for _ in range(nelem * 2)])
        rng = rng_
        extra = {"N": [9, 120, 254, 255], "B": [10, 13, 253], "F": [11, 200], "L": [12, 14], "T": [20], "C": [21]}
        for ty, nums in extra.items():
            for n in nums:
                if n not in t.files:
                    ne = rng.choice([nelem, nelem, 100, 17, 3]) if short else nelem
                    t.files[n] = (ty, [_W.getrandbits(16) for _ in range(ne * WORDS_PER_ELEMENT[ty])])
        return t

    def snapshot(self):
        return {n: (ty, list(w)) for n, (ty, w) in self.files.items()}

    def word_index(self, ty, element, sub):
        if ty in ("I", "O"):
            return element * 4 + sub
        return element * WORDS_PER_ELEMENT[ty] + sub


def _field(d, o):
    """one PCCC address field: 1 byte, or FF lo hi"""
    if o >= len(d):
        raise IndexError
    if d[o] == 0xFF:
        if o + 3 > len(d):
            raise IndexError
        return d[o + 1] | (d[o + 2] << 8), o + 3
    return d[o], o + 1


class SLCDevice(rt.Device):
    def __init__(self, identity, rng, log, table):
        super().__init__(identity, rng, log)
        self.table = table
        self.commands = []       # every PCCC command executed: dict(fnc, file, type, element, sub, size, mask, data, sts)
        self.force_sts = None

    def serve(self, rq):
        if rq.segs[:2] == [("logical", "class", 0x67), ("logical", "instance", 1)] and rq.service == 0x4B:
            return self.execute_pccc(rq)
        return super().serve(rq)

    duplicate_detection = False

    def execute_pccc(self, rq):
        """DF1 duplicate detection (1770-6.5.16, "duplicate message detection"): a node may compare command and transaction number of a
        command with those of the previous one from the same source and, if they are equal, repeat its reply without executing again"""
        d = rq.data
        key = None
        if self.duplicate_detection and d and d[0] >= 7 and len(d) >= d[0] + 4:
            p_ = d[d[0]:]
            key = (p_[0], bytes(p_[2:4]))
            last = getattr(self, "_last_pccc", None)
            if last is not None and last[0] == key:
                self.log.c("pccc-duplicates-not-executed")
                return last[1]
        out = self._execute_pccc(rq)
        if key is not None:
            self._last_pccc = (key, out)
        return out

    def _execute_pccc(self, rq):
        d = rq.data
        if not d or d[0] < 7 or len(d) < d[0] + 4:
            return rt.ST_NOT_ENOUGH, (), b""
        idlen = d[0]
        reqid = d[:idlen]
        p = d[idlen:]
        cmd, sts, tns = p[0], p[1], p[2:4]
        body = p[4:]
        entry = {"cmd": cmd, "raw": bytes(p)}
        self.commands.append(entry)

        def reply(sts_, data=b""):
            entry["sts"] = sts_
            return rt.ST_OK, (), reqid + bytes([cmd | 0x40, sts_]) + tns + data

        if cmd != 0x0F or not body:
            return reply(STS_ILLEGAL)
        fnc = body[0]
        entry["fnc"] = fnc
        if self.force_sts is not None:
            # an error reply may carry bytes after STS: the EXT STS byte (with STS 0xF0), padded to a word, or a reply padded to the
            # size that was asked for - none of it is data
            return reply(self.force_sts, getattr(self, "force_sts_data", b"") or b"")
        if fnc not in (0xA2, 0xAB):
            return reply(STS_ILLEGAL)
        try:
            size = body[1]
            fileno, o = _field(body, 2)
            ftype = body[o]
            o += 1
            element, o = _field(body, o)
            sub, o = _field(body, o)
        except IndexError:
            return reply(STS_ILLEGAL)
        ty = FILE_TYPE_CODES.get(ftype)
        entry.update(file=fileno, type=ty, type_code=ftype, element=element, sub=sub, size=size)
        f = self.table.files.get(fileno)
        if ty is None or f is None or f[0] != ty:
            return reply(STS_ILLEGAL)
        words = f[1]
        if size == 0 or size % 2:
            return reply(STS_ILLEGAL)
        wpe = 4 if ty in ("I", "O") else WORDS_PER_ELEMENT[ty]
        if sub >= wpe:
            return reply(STS_ADDRESS)
        start = self.table.word_index(ty, element, sub)
        n = size // 2
        if start + n > len(words):
            return reply(STS_ADDRESS)
        if fnc == 0xA2:
            if o != len(body):
                entry["trailing"] = len(body) - o
                return reply(STS_ILLEGAL)
            return reply(STS_OK, b"".join(w.to_bytes(2, "little") for w in words[start:start + n]))
        if o + 2 > len(body):
            return reply(STS_ILLEGAL)
        mask = body[o] | (body[o + 1] << 8)
        data = body[o + 2:]
        entry.update(mask=mask, data=bytes(data))
        if len(data) != size:
            return reply(STS_ILLEGAL)
        for i in range(n):
            v = data[2 * i] | (data[2 * i + 1] << 8)
            words[start + i] = (words[start + i] & ~mask & 0xFFFF) | (v & mask)
        return reply(STS_OK)


# -------------------------------------------------------------------------------------------------------------------------------
# address grammar (reference recogniser)
# -------------------------------------------------------------------------------------------------------------------------------
_WORD = re.compile(r"^(?P<t>[NBFL])(?P<f>\d+):(?P<e>\d+)(?:/(?P<b>\d+))?(?:\{(?P<c>\d+)\})?$", re.I)
_S = re.compile(r"^(?P<t>S)(?P<f>2)?:(?P<e>\d+)(?:/(?P<b>\d+))?(?:\{(?P<c>\d+)\})?$", re.I)
_IO = re.compile(r"^(?P<t>[IO])(?P<f>\d+)?:(?P<e>\d+)(?:\.(?P<p>\d+))?(?:/(?P<b>\d+))?(?:\{(?P<c>\d+)\})?$", re.I)
_BN = re.compile(r"^(?P<t>B)(?P<f>\d+)/(?P<n>\d+)(?:\{(?P<c>\d+)\})?$", re.I)
_CT = re.compile(r"^(?P<t>[CT])(?P<f>\d+):(?P<e>\d+)\.(?P<s>[A-Za-z]+)$")
_ANY = re.compile(r"^(?P<t>[A-Za-z]+)(?P<f>\d*)[:/]")
SUPPORTED = {"N", "B", "F", "L", "S", "I", "O", "T", "C"}


def parse_address(s):
    """-> dict(kind='ok', file, type, element, sub, bit, count, ctsub) | ('reject', why) | ('dontcare', why)"""
    def num(x):
        return int(x) if x is not None else None
    if not s.isascii():
        return ("dontcare", "non-ascii")

    def lead0(*xs):
        return any(x is not None and len(x) > 1 and x[0] == "0" for x in xs)
    m = _WORD.match(s)
    if m:
        f, e, b, c = num(m["f"]), num(m["e"]), num(m["b"]), num(m["c"])
        if lead0(m["f"], m["e"], m["b"]):
            return ("dontcare", "leading zeros")
        if not (1 <= f <= 255):
            return ("reject", "file number out of range")
        if e > 255:
            return ("reject", "element out of range")
        if b is not None and b > 15:
            return ("reject", "bit out of range")
        t = m["t"].upper()
        if b is not None and t == "F":
            return ("dontcare", "bit of a float element")
        if c is not None and (c < 1 or b is not None):
            return ("dontcare", "count 0 or count on a bit")
        return dict(kind="ok", file=f, type=t, element=e, sub=0, bit=b, count=c or 1, ctsub=None)
    m = _S.match(s)
    if m:
        e, b, c = num(m["e"]), num(m["b"]), num(m["c"])
        if lead0(m["e"], m["b"]):
            return ("dontcare", "leading zeros")
        if m["f"]:
            return ("dontcare", "S2: spelling")
        if e > 255:
            return ("reject", "element out of range")
        if b is not None and b > 15:
            return ("reject", "bit out of range")
        if c is not None and (c < 1 or b is not None):
            return ("dontcare", "count 0 or count on a bit")
        return dict(kind="ok", file=2, type="S", element=e, sub=0, bit=b, count=c or 1, ctsub=None)
    m = _IO.match(s)
    if m:
        e, p, b, c = num(m["e"]), num(m["p"]), num(m["b"]), num(m["c"])
        if lead0(m["e"], m["p"], m["b"]) or m["f"]:
            return ("dontcare", "leading zeros / explicit I-O file number")
        if e > 255:
            return ("reject", "element out of range")
        if b is not None and b > 15:
            return ("reject", "bit out of range")
        if p is not None and p > 3:
            return ("dontcare", "I/O word beyond the modelled 4 words")
        if c is not None and (c < 1 or b is not None):
            return ("dontcare", "count 0 or count on a bit")
        t = m["t"].upper()
        return dict(kind="ok", file=0 if t == "O" else 1, type=t, element=e, sub=p or 0, bit=b, count=c or 1, ctsub=None)
    m = _BN.match(s)
    if m:
        f, n, c = num(m["f"]), num(m["n"]), num(m["c"])
        if lead0(m["f"], m["n"]):
            return ("dontcare", "leading zeros")
        if not (1 <= f <= 255):
            return ("reject", "file number out of range")
        if n > 4095:
            return ("reject", "bit number out of range")
        if c is not None:
            return ("dontcare", "count on a bit address")
        return dict(kind="ok", file=f, type="B", element=n // 16, sub=0, bit=n % 16, count=1, ctsub=None)
    m = _CT.match(s)
    if m:
        f, e = num(m["f"]), num(m["e"])
        if lead0(m["f"], m["e"]):
            return ("dontcare", "leading zeros")
        t = m["t"].upper()
        sub = m["s"].upper()
        if not (1 <= f <= 255):
            return ("reject", "file number out of range")
        if e > 255:
            return ("reject", "element out of range")
        if sub not in ("PRE", "ACC") and sub not in CT_BITS[t]:
            return ("dontcare", "sub-element not defined for this file type")
        return dict(kind="ok", file=f, type=t, element=e, sub=0, bit=None, count=1, ctsub=sub)
    m = _ANY.match(s)
    if m and m["t"].upper() not in SUPPORTED and m["t"].upper() not in ("ST", "A", "R", "MG", "PD", "PLS"):
        return ("reject", "unsupported file type")
    return ("dontcare", "outside the modelled grammar")


def device_accepts(table, a):
    """does the data table hold everything address a denotes (file of that type, all addressed elements inside it)?"""
    f = table.files.get(a["file"])
    if f is None or f[0] != a["type"]:
        return False
    ty, words = f
    if ty in ("I", "O"):
        return a["element"] * 4 + a["sub"] + a["count"] <= len(words)
    return (a["element"] + a["count"]) * WORDS_PER_ELEMENT[ty] <= len(words)


def expected_read(table, a):
    """value a read of address a returns, from the data table"""
    ty, words = table.files[a["file"]]
    wpe = 4 if ty in ("I", "O") else WORDS_PER_ELEMENT[ty]
    base = table.word_index(ty, a["element"], a["sub"])

    def elem(i):
        o = base + i * (wpe if ty not in ("I", "O") else 1)
        if ty == "F":
            return struct.unpack("<f", words[o].to_bytes(2, "little") + words[o + 1].to_bytes(2, "little"))[0]
        if ty == "L":
            return int.from_bytes(words[o].to_bytes(2, "little") + words[o + 1].to_bytes(2, "little"), "little", signed=True)
        v = words[o]
        return v - 65536 if v >= 32768 else v
    if a["ctsub"]:
        o = a["element"] * 3
        if a["ctsub"] == "PRE":
            v = words[o + 1]
            return v - 65536 if v >= 32768 else v
        if a["ctsub"] == "ACC":
            v = words[o + 2]
            return v - 65536 if v >= 32768 else v
        return bool(words[o] >> CT_BITS[ty][a["ctsub"]] & 1)
    if a["bit"] is not None:
        return bool(words[base] >> a["bit"] & 1)   # bits 0..15: the low word also for 2-word (long) elements
    vals = [elem(i) for i in range(a["count"])]
    return vals if a["count"] > 1 else vals[0]


def selftest():
    import random
    n = 0
    assert parse_address("N7:0")["element"] == 0 and parse_address("n7:10/3")["bit"] == 3; n += 1
    a = parse_address("B3/17")
    assert (a["file"], a["element"], a["bit"]) == (3, 1, 1); n += 1
    assert parse_address("B3/4095")["element"] == 255 and parse_address("B3/4096")[0] == "reject"; n += 1
    assert parse_address("N7:256")[0] == "reject" and parse_address("N0:1")[0] == "reject" and parse_address("N7:1/16")[0] == "reject"; n += 1
    assert parse_address("N7:1000")[0] == "reject" and parse_address("N7:5/123")[0] == "reject" and parse_address("Q7:1")[0] == "reject"; n += 1
    assert parse_address("T4:1.PRE")["ctsub"] == "PRE" and parse_address("C5:0.cu")["ctsub"] == "CU"; n += 1
    assert parse_address("N120:10{10}")["count"] == 10 and parse_address("S:1/15")["file"] == 2 and parse_address("I:1.2/3")["sub"] == 2; n += 1
    rng = random.Random(3)
    t = DataTable.random(rng)
    dev = SLCDevice(rt.Identity(), rng, rt.MonitorLog(), t)
    reqid = b"\x07\x09\x10\x01\x02\x03\x04"
    # protected typed logical read N7:3, 2 bytes (1770-RM516: 0F 00 tns A2 size file type elem sub)
    rq = rt.MRRequest(0x4B, b"", [("logical", "class", 0x67), ("logical", "instance", 1)], reqid + b"\x0f\x00\x11\x22\xa2\x02\x07\x89\x03\x00", "connected")
    st, ext, data = dev.serve(rq)
    assert st == 0 and data[:7] == reqid and data[7] == 0x4F and data[8] == 0 and data[9:11] == b"\x11\x22" and data[11:] == t.files[7][1][3].to_bytes(2, "little"); n += 1
    # masked write of bit 5 of N7:3
    old = t.files[7][1][3]
    rq = rt.MRRequest(0x4B, b"", rq.segs, reqid + b"\x0f\x00\x11\x23\xab\x02\x07\x89\x03\x00" + b"\x20\x00" + b"\x20\x00", "connected")
    st, ext, data = dev.serve(rq)
    assert data[8] == 0 and t.files[7][1][3] == old | 0x20; n += 1
    # element 255 needs the FF escape
    rq = rt.MRRequest(0x4B, b"", rq.segs, reqid + b"\x0f\x00\x11\x24\xa2\x02\x07\x89\xff\xff\x00\x00", "connected")
    st, ext, data = dev.serve(rq)
    assert data[8] == 0 and data[11:] == t.files[7][1][255].to_bytes(2, "little"); n += 1
    assert expected_read(t, parse_address("N7:255")) == (t.files[7][1][255] - 65536 if t.files[7][1][255] >= 32768 else t.files[7][1][255]); n += 1
    return n
