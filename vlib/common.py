"""Shared infrastructure: repo import, seeded RNG, result accumulation, verdicts,
known findings, evidence files, shard runner.  See DESIGN.md sections 2.4-2.6."""
import hashlib
import json
import os
import random
import subprocess
import sys
import time
import traceback

VERIF_DIR = os.path.dirname(os.path.dirname(os.path.abspath(__file__)))
REPO = os.environ.get("VERIF_REPO", "/repo")
EVIDENCE_DIR = os.environ.get("VERIF_EVIDENCE_DIR") or os.path.join(VERIF_DIR, "evidence")
REPLAY_DIR = os.environ.get("VERIF_REPLAY_DIR") or os.path.join(VERIF_DIR, "replays")
WORK_DIR = os.path.join(VERIF_DIR, ".work")
KNOWN_FINDINGS = os.path.join(VERIF_DIR, "known_findings.json")

EXIT_HELD, EXIT_VIOLATION, EXIT_INCONCLUSIVE = 0, 1, 2

_repo_ready = False


def setup_repo():
    """Import pycomm3 from the working tree under VERIF_REPO (fresh interpreter, no .pyc)."""
    global _repo_ready
    if _repo_ready:
        return sys.modules["pycomm3"]
    sys.dont_write_bytecode = True
    root = os.path.realpath(REPO)
    if root not in sys.path[:1]:
        sys.path.insert(0, root)
    import logging

    import pycomm3  # noqa

    where = os.path.realpath(pycomm3.__file__)
    if not where.startswith(root + os.sep):
        raise RuntimeError(f"pycomm3 imported from {where}, expected under {root}")
    # the library logs every expected failure with .exception(); keep it silent and cheap
    logging.disable(logging.CRITICAL)
    lg = logging.getLogger("pycomm3")
    lg.propagate = False
    _repo_ready = True
    return pycomm3


def seed_from_env():
    try:
        return int(os.environ.get("VERIF_SEED", "0"))
    except ValueError:
        return 0


def rng_for(pid, seed, shard, salt=""):
    return random.Random(f"{pid}:{seed}:{shard}:{salt}")


def jsonable(x, depth=0):
    """Best-effort conversion of witnesses to JSON."""
    if depth > 8:
        return repr(x)[:200]
    if x is None or isinstance(x, (bool, int, str)):
        return x
    if isinstance(x, float):
        if x != x or x in (float("inf"), float("-inf")):
            return repr(x)
        return x
    if isinstance(x, (bytes, bytearray, memoryview)):
        b = bytes(x)
        return {"hex": b.hex() if len(b) <= 512 else b[:512].hex() + f"...(+{len(b) - 512}B)"}
    if isinstance(x, dict):
        return {str(k): jsonable(v, depth + 1) for k, v in list(x.items())[:200]}
    if isinstance(x, (list, tuple, set, frozenset)):
        xs = list(x)
        out = [jsonable(v, depth + 1) for v in xs[:100]]
        if len(xs) > 100:
            out.append(f"...(+{len(xs) - 100} items)")
        return out
    if isinstance(x, BaseException):
        return {"exc": type(x).__name__, "msg": str(x)[:300]}
    return repr(x)[:300]


def short_hash(s):
    if not isinstance(s, (bytes, bytearray)):
        s = repr(s).encode("utf-8", "replace")
    return hashlib.blake2b(s, digest_size=6).hexdigest()


class Result:
    """What one shard observed.  Mergeable."""

    MAX_SAMPLES = 12
    MAX_VIOL_PER_KEY = 3

    def __init__(self, pid):
        self.pid = pid
        self.evaluations = 0
        self.distinct = set()  # hashed canonical keys of non-trivial cases
        self.counters = {}
        self.samples = []
        self.violations = {}  # key -> list of {what, witness}
        self.viol_counts = {}
        self.dontcare = {}
        self.inconclusive = []
        self.notes = {}

    # -- recording ------------------------------------------------------------
    def ev(self, n=1):
        self.evaluations += n

    def seen(self, *key):
        self.distinct.add(short_hash(key))

    def count(self, name, n=1):
        self.counters[name] = self.counters.get(name, 0) + n

    def dont_care(self, name, n=1):
        self.dontcare[name] = self.dontcare.get(name, 0) + n

    def sample(self, s, force=False):
        if len(self.samples) < self.MAX_SAMPLES or force:
            self.samples.append(jsonable(s))

    def violation(self, key, what, witness=None):
        self.viol_counts[key] = self.viol_counts.get(key, 0) + 1
        lst = self.violations.setdefault(key, [])
        if len(lst) < self.MAX_VIOL_PER_KEY:
            lst.append({"what": str(what)[:600], "witness": jsonable(witness)})

    def inconc(self, reason):
        if reason not in self.inconclusive:
            self.inconclusive.append(reason)

    # -- (de)serialisation ----------------------------------------------------
    def to_json(self):
        return {
            "pid": self.pid,
            "evaluations": self.evaluations,
            "distinct": sorted(self.distinct),
            "counters": self.counters,
            "samples": self.samples,
            "violations": self.violations,
            "viol_counts": self.viol_counts,
            "dontcare": self.dontcare,
            "inconclusive": self.inconclusive,
            "notes": self.notes,
        }

    @classmethod
    def from_json(cls, d):
        r = cls(d["pid"])
        r.evaluations = d["evaluations"]
        r.distinct = set(d["distinct"])
        r.counters = d["counters"]
        r.samples = d["samples"]
        r.violations = d["violations"]
        r.viol_counts = d["viol_counts"]
        r.dontcare = d["dontcare"]
        r.inconclusive = d["inconclusive"]
        r.notes = d.get("notes", {})
        return r

    def merge(self, other):
        self.evaluations += other.evaluations
        self.distinct |= other.distinct
        for k, v in other.counters.items():
            self.counters[k] = self.counters.get(k, 0) + v
        for k, v in other.dontcare.items():
            self.dontcare[k] = self.dontcare.get(k, 0) + v
        for s in other.samples:
            if len(self.samples) < self.MAX_SAMPLES:
                self.samples.append(s)
        for k, lst in other.violations.items():
            mine = self.violations.setdefault(k, [])
            for v in lst:
                if len(mine) < self.MAX_VIOL_PER_KEY:
                    mine.append(v)
        for k, v in other.viol_counts.items():
            self.viol_counts[k] = self.viol_counts.get(k, 0) + v
        for r in other.inconclusive:
            self.inconc(r)
        for k, v in other.notes.items():
            if k == "anchors_missing" and k in self.notes:
                # an anchored mechanism counts as reached when any shard executed it
                self.notes[k] = [a for a in self.notes[k] if a in v]
                self.notes["anchors_reached"] = self.notes.get("anchors_total", 0) - len(self.notes[k])
            elif k == "max_line_events_in_one_call" and k in self.notes:
                self.notes[k] = max(self.notes[k], v)
            elif k != "anchors_reached" or k not in self.notes:
                self.notes.setdefault(k, v)


def load_known_findings():
    try:
        with open(KNOWN_FINDINGS) as f:
            data = json.load(f)
    except FileNotFoundError:
        return []
    return data.get("findings", [])


def match_known(pid, key, findings):
    for f in findings:
        if f.get("property") != pid or f.get("status") != "open":
            continue
        k = f.get("key", "")
        if key == k or (k.endswith("*") and key.startswith(k[:-1])):
            return f
    return None


def finish(pid, tier, seed, level, result, rule, wall_s, assumptions, extra_coverage=None,
           exhaustive=False, min_evaluations=1):
    """Write evidence, print verdict lines, return the exit code."""
    os.makedirs(EVIDENCE_DIR, exist_ok=True)
    findings = load_known_findings()
    unlisted, listed = [], []
    for key in sorted(result.violations):
        f = match_known(pid, key, findings)
        (listed if f else unlisted).append((key, f))

    lines = []
    for key, f in listed:
        lines.append(f"KNOWN-FINDING: property={pid} {f.get('what', key)} [key={key} hits={result.viol_counts.get(key)}]")
    if unlisted:
        os.makedirs(REPLAY_DIR, exist_ok=True)
    for key, _ in unlisted:
        safe = "".join(c if c.isalnum() or c in "-_." else "_" for c in key)[:80]
        path = os.path.join(REPLAY_DIR, f"{pid}-{safe}.json")
        with open(path, "w") as fh:
            json.dump({"property": pid, "key": key, "tier": tier, "seed": seed,
                       "hits": result.viol_counts.get(key),
                       "cases": result.violations[key]}, fh, indent=1)
        first = result.violations[key][0]["what"] if result.violations[key] else ""
        lines.append(f"VIOLATION property={pid} replay={path} key={key} hits={result.viol_counts.get(key)} :: {first[:300]}")

    if result.notes.get("anchors_missing"):
        # the functions the property is anchored in were never executed by any shard: the monitors said nothing about them
        result.inconc("anchored mechanisms never executed: " + ", ".join(result.notes["anchors_missing"]))
    if result.evaluations < min_evaluations:
        result.inconc(f"deciding oracle evaluated {result.evaluations} < {min_evaluations} times")

    coverage = {
        "evaluations": int(result.evaluations),
        "distinct_nontrivial": len(result.distinct),
        "rule": rule,
        "samples": result.samples[: Result.MAX_SAMPLES] or ["(none recorded)"],
        "counters": dict(sorted(result.counters.items())),
        "dont_care": dict(sorted(result.dontcare.items())),
        "known_findings_hit": {k: result.viol_counts.get(k) for k, _ in listed},
        "unlisted_violation_keys": [k for k, _ in unlisted],
        "inconclusive": result.inconclusive,
    }
    if exhaustive:
        coverage["exhaustive"] = True
    if result.notes:
        coverage["notes"] = result.notes
    if extra_coverage:
        coverage.update(extra_coverage)
    evidence = {
        "property_id": pid,
        "tier": tier,
        "seed": int(seed),
        "level": level,
        "coverage": coverage,
        "assumptions": assumptions,
        "wall_s": round(wall_s, 3),
        "violations": len(unlisted),
    }
    with open(os.path.join(EVIDENCE_DIR, f"{pid}.json"), "w") as fh:
        json.dump(evidence, fh, indent=1, sort_keys=False)

    shown = 0
    for ln in lines:
        if ln.startswith("VIOLATION"):
            shown += 1
            if shown > 15:
                continue
        print(ln)
    if shown > 15:
        print(f"... {shown - 15} more VIOLATION keys (see evidence/{pid}.json unlisted_violation_keys and replays/)")
    if unlisted:
        verdict, code = "VIOLATED", EXIT_VIOLATION
    elif result.inconclusive:
        print(f"INCONCLUSIVE property={pid} reason={'; '.join(result.inconclusive)[:400]}")
        verdict, code = "INCONCLUSIVE", EXIT_INCONCLUSIVE
    else:
        verdict, code = "HELD", EXIT_HELD
    print(f"[{pid}] {verdict} tier={tier} seed={seed} evaluations={result.evaluations} "
          f"distinct_nontrivial={len(result.distinct)} dont_care={sum(result.dontcare.values())} "
          f"known={len(listed)} wall={wall_s:.1f}s")
    return code


SHARD_TIMEZONES = ["UTC", "Asia/Kolkata", "America/St_Johns", "Pacific/Chatham", "Europe/Berlin", "America/Los_Angeles", "Australia/Lord_Howe", "Asia/Kathmandu"]


def run_shards(pid, tier, seed, nshards, timeout_s, extra_args=()):
    """Run `run_check.py PID --shard i/n` children in parallel; merge their Results.
    A dead or timed-out child makes the run inconclusive (never a violation)."""
    os.makedirs(WORK_DIR, exist_ok=True)
    script = os.path.join(VERIF_DIR, "run_check.py")
    procs = []
    for i in range(nshards):
        out = os.path.join(WORK_DIR, f"{pid}-{tier}-{seed}-{i}of{nshards}-{os.getpid()}.json")
        # every fourth shard runs under `python -O` (assert statements compiled away, __debug__ False): a library whose behaviour
        # hangs on an assert's side effect differs there.  (The harness's own asserts are model self-tests only.)
        opt = ["-O"] if i % 4 == 3 or (1 < nshards < 4 and i == nshards - 1) else []
        cmd = [sys.executable, "-B", *opt, script, pid, "--tier", tier, "--shard", f"{i}/{nshards}",
               "--shard-out", out, *extra_args]
        env = dict(os.environ, VERIF_SEED=str(seed), PYTHONDONTWRITEBYTECODE="1")
        # process-level configuration no property may depend on, varied over the shards and fixed by (seed, shard) so that a replay
        # sees the same: the local time zone (whole-, half- and quarter-hour offsets, both hemispheres' DST rules) and the hash seed
        # (iteration order of sets / dicts keyed by str or bytes)
        env["TZ"] = SHARD_TIMEZONES[(seed + i) % len(SHARD_TIMEZONES)]
        env["PYTHONHASHSEED"] = str((seed * 131 + i * 7 + 1) % 4294967295)
        p = subprocess.Popen(cmd, env=env, stdout=subprocess.PIPE, stderr=subprocess.STDOUT)
        procs.append((i, p, out))
    merged = Result(pid)
    deadline = time.monotonic() + timeout_s
    for i, p, out in procs:
        try:
            stdout, _ = p.communicate(timeout=max(1.0, deadline - time.monotonic()))
        except subprocess.TimeoutExpired:
            p.kill()
            stdout, _ = p.communicate()
            merged.inconc(f"shard {i} hit the wall-clock watchdog ({timeout_s}s)")
            continue
        finally:
            pass
        if not os.path.exists(out):
            tail = (stdout or b"")[-600:].decode("utf-8", "replace")
            merged.inconc(f"shard {i} died rc={p.returncode}: {tail}")
            continue
        with open(out) as fh:
            merged.merge(Result.from_json(json.load(fh)))
        os.remove(out)
    return merged


def guarded(result, key_prefix, fn, *a, **kw):
    """Run harness code; a crash in the *harness* must not look like a library verdict."""
    try:
        return fn(*a, **kw)
    except Exception:  # pragma: no cover - harness bug
        result.inconc(f"harness error in {key_prefix}: {traceback.format_exc()[-500:]}")
        return None
