"""Independent reference codec for CIP / Logix data (no pycomm3 imports).

Type descriptors (tuples):
  ('int', nbytes, signed)            little-endian two's complement integer
  ('real', 4|8)                      IEEE-754 binary32 / binary64, little-endian
  ('bool',)                          1 byte, 0x00 false / non-zero true; encodes 0xFF
  ('str', prefix_bytes, char_bytes)  counted string: count of characters, then characters
                                     (1-byte chars: ISO-8859-1; 2-byte: UTF-16-LE code units)
  ('stringn',)                       UINT char size, UINT char count, chars (1: 1-byte, 2: UTF-16-LE, 4: UTF-32-LE)
  ('bits', nbytes)                   bit string, element i = bit i (LSB first) of the little-endian integer
  ('bytes', n)                       n raw bytes (n = -1: the rest of the buffer)
  ('array', n, elem)                 n elements back to back; for ('bits',..) elements the python value is
                                     the flat list of bits
  ('larray', lendesc, elem)          decode: length first (lendesc), then that many elements; encode: elements only
  ('uarray', elem)                   unbounded: elements until the buffer ends
  ('struct', ((name|None, desc), ...))  members back to back; unnamed members are dropped on decode
  ('fixstr', capacity, lendesc)      Logix string: LEN then `capacity` data bytes, value = data[:LEN]
  ('udt', size, ((name, desc, offset),...), ((name, offset, bit),...), frozenset(private))
                                     Logix template layout: members at byte offsets inside `size` bytes, BOOL
                                     members as bits of host bytes; private members hidden on decode
  ('ipv4',)                          4 bytes network order <-> dotted quad
"""
import struct

SPEC_TYPES = {
    # name: (CIP type code, descriptor)  -- CIP Vol 1 Appendix C-6.1
    "BOOL": (0xC1, ("bool",)),
    "SINT": (0xC2, ("int", 1, True)),
    "INT": (0xC3, ("int", 2, True)),
    "DINT": (0xC4, ("int", 4, True)),
    "LINT": (0xC5, ("int", 8, True)),
    "USINT": (0xC6, ("int", 1, False)),
    "UINT": (0xC7, ("int", 2, False)),
    "UDINT": (0xC8, ("int", 4, False)),
    "ULINT": (0xC9, ("int", 8, False)),
    "REAL": (0xCA, ("real", 4)),
    "LREAL": (0xCB, ("real", 8)),
    "STIME": (0xCC, ("int", 4, True)),
    "DATE": (0xCD, ("int", 2, False)),
    "TIME_OF_DAY": (0xCE, ("int", 4, False)),
    "STRING": (0xD0, ("str", 2, 1)),
    "BYTE": (0xD1, ("bits", 1)),
    "WORD": (0xD2, ("bits", 2)),
    "DWORD": (0xD3, ("bits", 4)),
    "LWORD": (0xD4, ("bits", 8)),
    "STRING2": (0xD5, ("str", 2, 2)),
    "FTIME": (0xD6, ("int", 4, True)),
    "LTIME": (0xD7, ("int", 8, True)),
    "ITIME": (0xD8, ("int", 2, True)),
    "SHORT_STRING": (0xDA, ("str", 1, 1)),
    "TIME": (0xDB, ("int", 4, True)),
    "ENGUNIT": (0xDD, ("bits", 2)),
}
LOGIX_STRING = ("str", 4, 1)
STRINGN = ("stringn",)


class RefError(Exception):
    pass


# C06 / C07 judge values: an `n_bytes(-1)` ("all remaining bytes") that would be EMPTY is outside their domain - they switch this on so
# that arbitrary byte strings which end exactly where such a member begins are not taken for decodable values.  C08 (which prescribes
# the error for that very situation) leaves it off.
EMPTY_REST_IS_ERROR = False


class Short(RefError):
    """Buffer ended.  pos = where the failing read started, remaining = bytes left there."""

    def __init__(self, pos, remaining, need):
        super().__init__(f"short at {pos}: {remaining} < {need}")
        self.pos, self.remaining, self.need = pos, remaining, need


class OutOfDomain(RefError):
    pass


TRACE = None  # when a list: every leaf read start offset is appended (C08's BufferEmptyError rule)


def _take(data, pos, n):
    if TRACE is not None:
        TRACE.append(pos)
    if n < 0 or pos + n > len(data):
        raise Short(pos, len(data) - pos, n)
    return data[pos:pos + n], pos + n


def int_range(nbytes, signed):
    if signed:
        return -(1 << (8 * nbytes - 1)), (1 << (8 * nbytes - 1)) - 1
    return 0, (1 << (8 * nbytes)) - 1


def _char_ok(ch, char_bytes):
    o = ord(ch)
    if char_bytes == 1:
        return o <= 0xFF
    if char_bytes == 2:
        return o <= 0xFFFF and not (0xD800 <= o <= 0xDFFF)
    return o <= 0x10FFFF and not (0xD800 <= o <= 0xDFFF)


def in_domain(desc, v):
    """Is python value v inside the type's domain (strict: exact python types)."""
    k = desc[0]
    if k == "int":
        lo, hi = int_range(desc[1], desc[2])
        return isinstance(v, int) and not isinstance(v, bool) and lo <= v <= hi
    if k == "real":
        if isinstance(v, bool) or not isinstance(v, (int, float)):
            return False
        if desc[1] == 8:
            try:
                float(v)
                return True
            except OverflowError:
                return False
        try:
            struct.pack("<f", v)
            return True
        except (OverflowError, struct.error):
            return False
    if k == "bool":
        return isinstance(v, bool)
    if k == "str":
        return (isinstance(v, str) and len(v) <= int_range(desc[1], False)[1]
                and all(_char_ok(c, desc[2]) for c in v))
    if k == "stringn":
        return (isinstance(v, tuple) and len(v) == 2 and isinstance(v[0], str) and v[1] in (1, 2, 4)
                and len(v[0]) <= 0xFFFF and all(_char_ok(c, v[1]) and (v[1] != 1 or ord(c) < 0x80) for c in v[0]))
    if k == "bits":
        return isinstance(v, (list, tuple)) and len(v) == 8 * desc[1] and all(isinstance(b, bool) for b in v)
    if k == "bytes":
        return isinstance(v, (bytes, bytearray)) and (desc[1] == -1 or len(v) == desc[1])
    if k == "array":
        n, el = desc[1], desc[2]
        if not isinstance(v, (list, tuple)):
            return False
        if el[0] == "bits":
            w = 8 * el[1]
            return len(v) >= n * w and all(isinstance(b, bool) for b in v[: n * w])
        return len(v) >= n and all(in_domain(el, x) for x in v[:n])
    if k in ("larray", "uarray"):
        el = desc[-1]
        if not isinstance(v, (list, tuple)):
            return False
        if el[0] == "bits":
            return len(v) % (8 * el[1]) == 0 and all(isinstance(b, bool) for b in v)
        if k == "larray" and len(v) > int_range(desc[1][1], desc[1][2])[1]:
            return False
        return all(in_domain(el, x) for x in v)
    if k == "struct":
        mem = desc[1]
        if isinstance(v, dict):
            return all(n in v and in_domain(d, v[n]) for n, d in mem)
        if isinstance(v, (list, tuple)):
            return len(v) == len(mem) and all(in_domain(d, x) for (n, d), x in zip(mem, v))
        return False
    if k in ("fixstr", "lstr"):
        return isinstance(v, str) and all(_char_ok(c, 1) for c in v)
    if k == "udt":
        if not isinstance(v, dict):
            return False
        _, size, members, bits, private = desc
        return (all(n in v and in_domain(d, v[n]) for n, d, o in members if n not in private)
                and all(n in v for n, o, b in bits if n not in private))
    if k == "ipv4":
        if not isinstance(v, str):
            return False
        p = v.split(".")
        return len(p) == 4 and all(x.isdigit() and x.isascii() and len(x) <= 3 and (x == "0" or not x.startswith("0"))
                                   and int(x) <= 255 for x in p)
    raise RefError(f"unknown descriptor {desc!r}")


def encode(desc, v):
    k = desc[0]
    if k == "int":
        return int(v).to_bytes(desc[1], "little", signed=desc[2])
    if k == "real":
        return struct.pack("<f" if desc[1] == 4 else "<d", v)
    if k == "bool":
        return b"\xff" if v else b"\x00"
    if k == "str":
        enc = "iso-8859-1" if desc[2] == 1 else "utf-16-le"
        return len(v).to_bytes(desc[1], "little") + v.encode(enc)
    if k == "stringn":
        s, w = v
        enc = {1: "ascii", 2: "utf-16-le", 4: "utf-32-le"}[w]
        return w.to_bytes(2, "little") + len(s).to_bytes(2, "little") + s.encode(enc)
    if k == "bits":
        n = 0
        for i, b in enumerate(v[: 8 * desc[1]]):
            if b:
                n |= 1 << i
        return n.to_bytes(desc[1], "little")
    if k == "bytes":
        return bytes(v)
    if k == "array":
        n, el = desc[1], desc[2]
        if el[0] == "bits":
            w = 8 * el[1]
            return b"".join(encode(el, v[i * w:(i + 1) * w]) for i in range(n))
        return b"".join(encode(el, x) for x in v[:n])
    if k in ("larray", "uarray"):
        el = desc[-1]
        if el[0] == "bits":
            w = 8 * el[1]
            return b"".join(encode(el, v[i:i + w]) for i in range(0, len(v), w))
        return b"".join(encode(el, x) for x in v)
    if k == "struct":
        mem = desc[1]
        if isinstance(v, dict):
            return b"".join(encode(d, v[n]) for n, d in mem)
        return b"".join(encode(d, x) for (n, d), x in zip(mem, v))
    if k == "fixstr":
        cap, ld = desc[1], desc[2]
        raw = v.encode("iso-8859-1")[:cap]
        return encode(ld, len(raw)) + raw + bytes(cap - len(raw))
    if k == "lstr":  # Logix string structure: DINT LEN, SINT DATA[cap], padded to size
        size, cap = desc[1], desc[2]
        raw = v.encode("iso-8859-1")[:cap]
        return len(raw).to_bytes(4, "little") + raw + bytes(size - 4 - len(raw))
    if k == "udt":
        _, size, members, bits, private = desc
        buf = bytearray(size)
        for n, d, off in members:
            if n in private:
                continue
            e = encode(d, v[n])
            buf[off:off + len(e)] = e
        for n, off, bit in bits:
            if n in private:
                continue
            if v[n]:
                buf[off] |= 1 << bit
            else:
                buf[off] &= ~(1 << bit) & 0xFF
        return bytes(buf)
    if k == "ipv4":
        return bytes(int(x) for x in v.split("."))
    raise RefError(f"unknown descriptor {desc!r}")


def decode(desc, data, pos=0):
    """-> (value, new_pos); raises Short when the buffer ends early, RefError if malformed."""
    k = desc[0]
    if k == "int":
        b, pos = _take(data, pos, desc[1])
        return int.from_bytes(b, "little", signed=desc[2]), pos
    if k == "real":
        b, pos = _take(data, pos, desc[1])
        return struct.unpack("<f" if desc[1] == 4 else "<d", b)[0], pos
    if k == "bool":
        b, pos = _take(data, pos, 1)
        return b != b"\x00", pos
    if k == "str":
        n, pos = decode(("int", desc[1], False), data, pos)
        b, pos = _take(data, pos, n * desc[2])
        try:
            return b.decode("iso-8859-1" if desc[2] == 1 else "utf-16-le"), pos
        except UnicodeDecodeError:
            raise RefError("malformed string data (unpaired surrogate)")
    if k == "stringn":
        w, pos = decode(("int", 2, False), data, pos)
        n, pos = decode(("int", 2, False), data, pos)
        if w not in (1, 2, 4):
            raise RefError("bad char size")
        b, pos = _take(data, pos, n * w)
        try:
            return (b.decode({1: "utf-8", 2: "utf-16-le", 4: "utf-32-le"}[w]), w), pos
        except UnicodeDecodeError:
            raise RefError("malformed string data")
    if k == "bits":
        b, pos = _take(data, pos, desc[1])
        n = int.from_bytes(b, "little")
        return [bool(n >> i & 1) for i in range(8 * desc[1])], pos
    if k == "bytes":
        if desc[1] == -1:
            if EMPTY_REST_IS_ERROR and pos >= len(data):
                # "all remaining bytes" with nothing remaining: outside the judged domain of C06 / C07 (the library raises
                # BufferEmptyError there, which is what C08 prescribes when no byte remains where a value should start)
                raise RefError("rest-of-buffer value would be empty")
            return bytes(data[pos:]), len(data)
        b, pos = _take(data, pos, desc[1])
        return bytes(b), pos
    if k == "array":
        out = []
        for _ in range(desc[1]):
            x, pos = decode(desc[2], data, pos)
            if desc[2][0] == "bits":
                out.extend(x)
            else:
                out.append(x)
        return out, pos
    if k == "larray":
        n, pos = decode(desc[1], data, pos)
        if n < 0:
            raise RefError("negative array length")
        ms = min_size(desc[2])
        if ms == 0 and n > 4096:
            raise RefError("degenerate: huge count of zero-width elements")
        if ms and n * ms > len(data) - pos:
            # cannot fit: fail where the first missing element would start, without looping n times
            fit = (len(data) - pos) // ms
            return decode(("array", fit + 1, desc[2]), data, pos)
        return decode(("array", n, desc[2]), data, pos)
    if k == "uarray":
        out = []
        while pos < len(data):
            x, pos = decode(desc[1], data, pos)
            if desc[1][0] == "bits":
                out.extend(x)
            else:
                out.append(x)
        return out, pos
    if k == "struct":
        out = {}
        for n, d in desc[1]:
            x, pos = decode(d, data, pos)
            if n:
                out[n] = x
        return out, pos
    if k == "fixstr":
        n, pos = decode(desc[2], data, pos)
        if n < 0:
            raise RefError("negative string length")
        b, pos = _take(data, pos, desc[1])
        return b[:n].decode("iso-8859-1"), pos
    if k == "lstr":
        size, cap = desc[1], desc[2]
        b, end = _take(data, pos, size)
        n = int.from_bytes(b[:4], "little", signed=True)
        if n < 0:
            raise RefError("negative string length")
        return b[4:4 + cap][:n].decode("iso-8859-1"), end
    if k == "udt":
        _, size, members, bits, private = desc
        end = pos + size
        lim = data[:end] if len(data) > end else data
        out = {}
        for n, d, off in members:
            x, _ = decode(d, lim, pos + off)
            if n not in private:
                out[n] = x
        for n, off, bit in bits:
            b, _ = _take(lim, pos + off, 1)
            if n not in private:
                out[n] = bool(b[0] >> bit & 1)
        if len(data) < end:
            raise Short(len(data), 0, end - len(data))
        return out, end
    if k == "ipv4":
        b, pos = _take(data, pos, 4)
        return ".".join(str(x) for x in b), pos
    raise RefError(f"unknown descriptor {desc!r}")


def size_of(desc):
    """Fixed encoded size, or None when it depends on the value."""
    k = desc[0]
    if k in ("int", "real", "bits"):
        return desc[1]
    if k == "bool":
        return 1
    if k == "bytes":
        return None if desc[1] == -1 else desc[1]
    if k == "array":
        s = size_of(desc[2])
        return None if s is None else s * desc[1]
    if k == "struct":
        t = 0
        for n, d in desc[1]:
            s = size_of(d)
            if s is None:
                return None
            t += s
        return t
    if k == "fixstr":
        return size_of(desc[2]) + desc[1]
    if k in ("udt", "lstr"):
        return desc[1]
    if k == "ipv4":
        return 4
    return None


def min_size(desc):
    """Smallest possible encoded size (0 means an unbounded array of it has no defined value)."""
    k = desc[0]
    if k in ("int", "real", "bits"):
        return desc[1]
    if k in ("bool",):
        return 1
    if k == "bytes":
        return max(desc[1], 0)
    if k == "str":
        return desc[1]
    if k == "stringn":
        return 4
    if k == "array":
        return desc[1] * min_size(desc[2])
    if k == "larray":
        return min_size(desc[1])
    if k == "uarray":
        return 0
    if k == "struct":
        return sum(min_size(d) for n, d in desc[1])
    if k == "fixstr":
        return min_size(desc[2]) + desc[1]
    if k in ("udt", "lstr"):
        return desc[1]
    if k == "ipv4":
        return 4
    return 0


def values_equal(desc, a, b):
    """Equality at stored precision (floats by bit pattern at the type's width, NaN == NaN)."""
    k = desc[0]
    if k == "real":
        if isinstance(a, bool) or isinstance(b, bool) or not isinstance(a, (int, float)) or not isinstance(b, (int, float)):
            return False
        try:
            f = "<f" if desc[1] == 4 else "<d"
            pa, pb = struct.pack(f, a), struct.pack(f, b)
        except (OverflowError, struct.error):
            return False
        if pa == pb:
            return True
        return a != a and b != b
    if k == "bool":
        return isinstance(b, bool) and bool(a) == b
    if k == "int":
        return isinstance(b, int) and not isinstance(b, bool) and a == b
    if k in ("array", "larray", "uarray"):
        el = desc[-1]
        if not isinstance(b, (list, tuple)):
            return False
        if el[0] == "bits":
            return len(a) == len(b) and all(isinstance(y, bool) and bool(x) == y for x, y in zip(a, b))
        return len(a) == len(b) and all(values_equal(el, x, y) for x, y in zip(a, b))
    if k == "bits":
        return isinstance(b, (list, tuple)) and len(a) == len(b) and all(isinstance(y, bool) and bool(x) == y for x, y in zip(a, b))
    if k == "struct":
        if not isinstance(b, dict):
            return False
        named = [(n, d) for n, d in desc[1] if n]
        if set(b) != {n for n, _ in named}:
            return False
        return all(values_equal(d, a[n], b[n]) for n, d in named)
    if k == "udt":
        if not isinstance(b, dict):
            return False
        _, size, members, bits, private = desc
        vis = [(n, d) for n, d, o in members if n not in private]
        visb = [n for n, o, bt in bits if n not in private]
        if set(b) != {n for n, _ in vis} | set(visb):
            return False
        return all(values_equal(d, a[n], b[n]) for n, d in vis) and all(isinstance(b[n], bool) and bool(a[n]) == b[n] for n in visb)
    if k == "bytes":
        return isinstance(b, (bytes, bytearray)) and bytes(a) == bytes(b)
    return type(a) is type(b) and a == b


def selftest():
    n = 0
    # documentation vectors (docs/getting_started.rst)
    assert encode(SPEC_TYPES["DINT"][1], 112233) == b"i\xb6\x01\x00"; n += 1
    assert decode(SPEC_TYPES["DINT"][1], b"\x12\x34\x56\x78")[0] == 2018915346; n += 1
    assert encode(SPEC_TYPES["SHORT_STRING"][1], "Hello there!") == b"\x0cHello there!"; n += 1
    assert decode(SPEC_TYPES["SHORT_STRING"][1], b"\x0eGeneral Kenobi")[0] == "General Kenobi"; n += 1
    my = ("struct", (("code", ("int", 4, True)), ("name", ("str", 2, 1)), ("value", ("real", 4))))
    assert encode(my, {"code": 80, "name": "my name", "value": 123.45}) == b"P\x00\x00\x00\x07\x00my namef\xe6\xf6B"; n += 1
    assert encode(my, [80, "my name", 123.45]) == b"P\x00\x00\x00\x07\x00my namef\xe6\xf6B"; n += 1
    s5 = ("array", 5, ("int", 1, True))
    assert encode(s5, list(range(1, 11))) == b"\x01\x02\x03\x04\x05"; n += 1
    assert decode(s5, b"\x01\x02\x03\x04\x05\x06\x07\x08\t\n") == ([1, 2, 3, 4, 5], 5); n += 1
    ss = ("larray", ("int", 1, True), ("int", 1, True))
    assert encode(ss, list(range(1, 11))) == b"\x01\x02\x03\x04\x05\x06\x07\x08\t\n"; n += 1
    assert decode(ss, b"\x05\x01\x02\x03\x04\x05\x00\x00\x00") == ([1, 2, 3, 4, 5], 6); n += 1
    su = ("uarray", ("int", 1, True))
    assert decode(su, bytes(range(1, 11)))[0] == list(range(1, 11)); n += 1
    # spec facts
    assert encode(("bool",), True) == b"\xff" and encode(("bool",), False) == b"\x00"; n += 1
    assert encode(("bits", 2), [True] + [False] * 15) == b"\x01\x00"; n += 1
    assert decode(("bits", 1), b"\x80")[0] == [False] * 7 + [True]; n += 1
    assert encode(("str", 2, 2), "ab") == b"\x02\x00a\x00b\x00"; n += 1
    assert decode(("str", 2, 2), b"\x02\x00a\x00b\x00zz") == ("ab", 6); n += 1
    assert encode(("fixstr", 8, ("int", 4, True)), "abc") == b"\x03\x00\x00\x00abc\x00\x00\x00\x00\x00"; n += 1
    assert encode(("fixstr", 4, ("int", 4, True)), "abcdefgh") == b"\x04\x00\x00\x00abcd"; n += 1
    assert decode(("fixstr", 8, ("int", 4, True)), b"\x03\x00\x00\x00abcdefgh!") == ("abc", 12); n += 1
    udt = ("udt", 8, (("ZZZZZZZZZZh0", ("int", 1, True), 0), ("x", ("int", 4, True), 4)), (("b0", 0, 0), ("b1", 0, 1)),
           frozenset(["ZZZZZZZZZZh0"]))
    e = encode(udt, {"x": -2, "b0": False, "b1": True})
    assert e == b"\x02\x00\x00\x00\xfe\xff\xff\xff", e; n += 1
    assert decode(udt, e + b"junk") == ({"x": -2, "b0": False, "b1": True}, 8); n += 1
    # round trips, every spec type, boundary values
    for name, (code, d) in SPEC_TYPES.items():
        if d[0] == "int":
            lo, hi = int_range(d[1], d[2])
            for v in (lo, hi, 0, 1, lo + 1, hi - 1):
                assert decode(d, encode(d, v) + b"x") == (v, d[1]); n += 1
        assert size_of(d) in (None, 1, 2, 4, 8)
    try:
        decode(("int", 4, True), b"\x00\x00")
        raise AssertionError("short not detected")
    except Short as s:
        assert (s.pos, s.remaining) == (0, 2); n += 1
    assert values_equal(("real", 4), float("nan"), float("nan")) and not values_equal(("real", 4), 1.0, 1.0000001192092896)
    assert values_equal(("real", 4), 123.45, 123.44999694824219); n += 2
    return n
