"""sys.monitoring based instrumentation (Python 3.12): logical step budget for termination
claims and function-level reachability of the anchored mechanisms.  No repo edits needed."""
import os
import sys

from . import common


class BudgetExceeded(BaseException):
    """Deliberately not an Exception: passes through the library's `except Exception`."""


_mon = getattr(sys, "monitoring", None)
_COV_ID = 1  # sys.monitoring.COVERAGE_ID
_BUD_ID = 2  # sys.monitoring.PROFILER_ID
_LIN_ID = 4


class Reach:
    """Records which repo functions (by co_qualname) started at least once.  Near-free:
    each code object disables itself after its first PY_START."""

    def __init__(self):
        self.root = os.path.realpath(common.REPO) + os.sep
        self.hit = set()
        self.on = False

    def start(self):
        if _mon is None or self.on:
            return self
        try:
            _mon.use_tool_id(_COV_ID, "verif-reach")
        except ValueError:
            return self
        _mon.register_callback(_COV_ID, _mon.events.PY_START, self._cb)
        _mon.set_events(_COV_ID, _mon.events.PY_START)
        self.on = True
        return self

    def _cb(self, code, offset):
        fn = code.co_filename
        if fn.startswith(self.root):
            self.hit.add((fn[len(self.root):], code.co_qualname))
        return _mon.DISABLE

    def stop(self):
        if self.on:
            _mon.set_events(_COV_ID, 0)
            _mon.register_callback(_COV_ID, _mon.events.PY_START, None)
            _mon.free_tool_id(_COV_ID)
            self.on = False

    def report(self, anchors):
        """anchors: list of (file, qualname-suffix).  A qualname matches when it equals the
        anchor or ends with '.'+anchor (factories create classes inside functions)."""
        reached, missing = [], []
        for f, q in anchors:
            ok = any(hf.endswith(f) and (hq == q or hq.endswith("." + q) or hq.endswith(q))
                     for hf, hq in self.hit)
            (reached if ok else missing).append(f"{f}:{q}")
        return {"anchors_total": len(anchors), "anchors_reached": len(reached),
                "anchors_missing": missing}


class LineCov:
    """First-hit line coverage of repo code (tools/line_reach.py): each line location disables itself after its first
    LINE event, so the cost is negligible.  Diagnostic only (what the workloads never drive); never part of a verdict."""

    def __init__(self):
        self.root = os.path.realpath(common.REPO) + os.sep
        self.hit = set()
        self.on = False

    def start(self):
        if _mon is None or self.on:
            return self
        try:
            _mon.use_tool_id(_LIN_ID, "verif-linecov")
        except ValueError:
            return self
        _mon.register_callback(_LIN_ID, _mon.events.LINE, self._cb)
        _mon.set_events(_LIN_ID, _mon.events.LINE)
        self.on = True
        return self

    def _cb(self, code, lineno):
        fn = code.co_filename
        if fn.startswith(self.root):
            self.hit.add((fn[len(self.root):], lineno))
        return _mon.DISABLE

    def stop(self):
        if self.on:
            _mon.set_events(_LIN_ID, 0)
            _mon.register_callback(_LIN_ID, _mon.events.LINE, None)
            _mon.free_tool_id(_LIN_ID)
            self.on = False


class StepBudget:
    """Counts LINE events in repo code between begin() and end(); raises BudgetExceeded when a
    single guarded call exceeds its budget.  ~3.6x slowdown while armed."""

    def __init__(self):
        self.root = os.path.realpath(common.REPO) + os.sep
        self.n = 0
        self.limit = None
        self.on = False
        self.armed = False
        self.max_seen = 0

    def start(self):
        if _mon is None or self.on:
            return self
        _mon.use_tool_id(_BUD_ID, "verif-budget")
        _mon.register_callback(_BUD_ID, _mon.events.LINE, self._cb)
        self.on = True
        return self

    def _cb(self, code, line):
        if not code.co_filename.startswith(self.root):
            return _mon.DISABLE
        self.n += 1
        if self.limit is not None and self.n > self.limit:
            self.limit = None  # fire once
            raise BudgetExceeded(f"more than {self.n - 1} line events in {code.co_qualname}:{line}")

    def arm(self):
        """Keep LINE events enabled across many begin()/end() pairs (toggling is costly)."""
        if self.on:
            _mon.set_events(_BUD_ID, _mon.events.LINE)
            self.armed = True

    def disarm(self):
        if self.on:
            _mon.set_events(_BUD_ID, 0)
        self.armed = False

    def begin(self, limit):
        self.n = 0
        self.limit = limit
        if self.on and not self.armed:
            _mon.set_events(_BUD_ID, _mon.events.LINE)

    def end(self):
        if self.on and not self.armed:
            _mon.set_events(_BUD_ID, 0)
        self.limit = None
        if self.n > self.max_seen:
            self.max_seen = self.n
        return self.n

    def stop(self):
        if self.on:
            _mon.set_events(_BUD_ID, 0)
            _mon.register_callback(_BUD_ID, _mon.events.LINE, None)
            _mon.free_tool_id(_BUD_ID)
            self.on = False

    def call(self, limit, fn, *a, **kw):
        """Returns ('ok', value) | ('exc', exception) | ('budget', BudgetExceeded)."""
        self.begin(limit)
        try:
            return "ok", fn(*a, **kw)
        except BudgetExceeded as b:
            return "budget", b
        except Exception as e:  # noqa
            return "exc", e
        finally:
            self.end()
