"""Reference Logix controller device: Symbol object (0x6B) list service with target-chosen pagination, Template
object (0x6C) attributes and fragmented template read, tag services Read 0x4C / Read Fragmented 0x52 / Write 0x4D /
Write Fragmented 0x53 / Read-Modify-Write 0x4E on symbolic and symbol-instance paths, Multiple Service Packet 0x0A.
Validates like a controller (Logix 5000 Data Access, 1756-PM020); journals every executed write; monitors C04."""
from . import devices
from . import refproject as rpj
from . import reftarget as rt

EXT_BEYOND, EXT_TYPE_MISMATCH = 0x2105, 0x2107
TAG_SERVICES = (0x4C, 0x52, 0x4D, 0x53, 0x4E)


class LogixDevice(devices.ControllerDevice):
    obeys_capacity = True   # sizes every reply to the connection itself (an oversize reply from it is a harness bug, not the client's)

    def __init__(self, identity, rng, log, project, **kw):
        super().__init__(identity, rng, log, program_name=project.name, **kw)
        self.prj = project
        # target-chosen behaviours (seeded)
        self.multi_lead_pad = rng.choice([0, 0, 0, 2, 4])   # bytes between a Multiple Service reply's offset table and its first reply
        self.page_mode = rng.choice(["all", "all", 1, 2, 3, "random"])
        self.tmpl_frag = rng.choice(["all", "all", "random", 1, 2, 3, 5, 8])
        self.read_frag = rng.choice(["full", "full", "random", "tiny"])
        self.true_byte = rng.choice([0xFF, 0xFF, 0x01, rng.randrange(1, 256)])
        self.write_journal = []       # executed tag-write services
        self.read_transfers = {}      # (conn id, path, count) -> bytes returned so far
        self.write_transfers = {}     # (conn id, path, count) -> {"sum":, "total":, "first":}
        self.reads_executed = []      # (kind, path, count, nbytes) for path-class accounting
        self.events = []              # ('reply_too_large', detail) ...
        self.services = {}
        self.inject_status = None     # callable(rq, loc_info) -> None | (status, ext): per-service controller error (C03/C13)

    # ---- dispatch ---------------------------------------------------------------------------------------------------------
    def serve(self, rq):
        segs = rq.segs
        svc = rq.service
        self.services[svc] = self.services.get(svc, 0) + 1
        if not segs:
            return rt.ST_PATH_SYNTAX, (), b""
        first = segs[0]
        if first == ("logical", "class", 0x02) and svc == 0x0A:
            return self.multi_service(rq)
        if first[:2] == ("logical", "class") and first[2] == 0x6C:
            return self.template_object(rq)
        if svc == 0x55:
            return self.symbol_list(rq)
        if svc in TAG_SERVICES and (first[0] == "symbol" or first == ("logical", "class", 0x6B)):
            return self.tag_service(rq)
        return super().serve(rq)

    # ---- Symbol object: Get_Instance_Attribute_List -----------------------------------------------------------------------------
    def symbol_list(self, rq):
        segs = list(rq.segs)
        program = None
        if segs and segs[0][0] == "symbol":
            nm = segs.pop(0)[1]
            if not nm.startswith("Program:") or nm[len("Program:"):] not in self.prj.programs:
                return rt.ST_PATH_UNKNOWN, (), b""
            program = nm[len("Program:"):]
        if len(segs) != 2 or segs[0] != ("logical", "class", 0x6B) or segs[1][:2] != ("logical", "instance"):
            return rt.ST_PATH_SYNTAX, (), b""
        start = segs[1][2]
        d = rq.data
        if len(d) < 2:
            return rt.ST_NOT_ENOUGH, (), b""
        n = int.from_bytes(d[:2], "little")
        if len(d) != 2 + 2 * n:
            return (rt.ST_NOT_ENOUGH if len(d) < 2 + 2 * n else rt.ST_TOO_MUCH), (), b""
        attrs = [int.from_bytes(d[2 + 2 * i:4 + 2 * i], "little") for i in range(n)]
        for a in attrs:
            if a not in (1, 2, 3, 5, 6, 7, 8, 10) or (a == 10 and self.prj.fw_major < 18):
                return rt.ST_ATTR_LIST, (), b""
        syms = [s for s in self.prj.scope_symbols(program) if s.instance_id >= start]
        cap = rq.capacity if rq.capacity is not None else 480
        out = b""
        mode = self.page_mode
        limit = {"all": 10 ** 9, "random": self.rng.randint(1, 6)}.get(mode, mode)
        emitted = 0
        status = rt.ST_OK
        for s in syms:
            rec = s.instance_id.to_bytes(4, "little")
            for a in attrs:
                if a == 1:
                    nb = s.name.encode("ascii")
                    rec += len(nb).to_bytes(2, "little") + nb
                elif a == 2:
                    rec += s.symbol_type().to_bytes(2, "little")
                elif a == 3:
                    rec += s.attr3.to_bytes(4, "little")
                elif a == 5:
                    rec += s.attr5.to_bytes(4, "little")
                elif a == 6:
                    rec += (s.attr6 & 0xFFFFFFFF).to_bytes(4, "little")
                elif a == 7:
                    rec += (s.dtype.size).to_bytes(2, "little")
                elif a == 8:
                    rec += b"".join(x.to_bytes(4, "little") for x in s.dims3())
                elif a == 10:
                    rec += bytes([s.access])
            if emitted >= limit or len(out) + len(rec) > cap:
                status = rt.ST_PARTIAL
                break
            out += rec
            emitted += 1
        if status == rt.ST_PARTIAL and emitted == 0:
            return rt.ST_REPLY_TOO_LARGE, (), b""
        self.log.c("symbol-pages")
        return status, (), out

    # ---- Template object -----------------------------------------------------------------------------------------------------------
    def template_object(self, rq):
        tid = rq.logical("instance")
        t = self.prj.by_template.get(tid)
        if t is None:
            return rt.ST_PATH_UNKNOWN, (), b""
        d = rq.data
        if rq.service == 0x03:
            if len(d) < 2:
                return rt.ST_NOT_ENOUGH, (), b""
            n = int.from_bytes(d[:2], "little")
            if len(d) != 2 + 2 * n:
                return (rt.ST_NOT_ENOUGH if len(d) < 2 + 2 * n else rt.ST_TOO_MUCH), (), b""
            out = n.to_bytes(2, "little")
            bad = False
            for i in range(n):
                a = int.from_bytes(d[2 + 2 * i:4 + 2 * i], "little")
                val = {1: t.handle.to_bytes(2, "little"), 2: t.member_count().to_bytes(2, "little"),
                       4: t.definition_size().to_bytes(4, "little"), 5: t.size.to_bytes(4, "little")}.get(a)
                if val is None:
                    out += a.to_bytes(2, "little") + (0x14).to_bytes(2, "little")
                    bad = True
                else:
                    out += a.to_bytes(2, "little") + b"\x00\x00" + val
            return (rt.ST_ATTR_LIST if bad else rt.ST_OK), (), out
        if rq.service == 0x4C:
            if len(d) != 6:
                return (rt.ST_NOT_ENOUGH if len(d) < 6 else rt.ST_TOO_MUCH), (), b""
            off, cnt = int.from_bytes(d[:4], "little"), int.from_bytes(d[4:6], "little")
            body = t.template_bytes()
            if off > len(body):
                return rt.ST_GENERAL, (EXT_BEYOND,), b""
            want = body[off:off + cnt]   # asking past the end returns what exists (real controllers do)
            cap = rq.capacity if rq.capacity is not None else 480
            mode = self.tmpl_frag
            n = len(want) if mode == "all" else self.rng.randint(1, max(1, len(want))) if mode == "random" else mode
            n = max(1, min(n, cap, len(want))) if want else 0
            self.log.c("template-fragments")
            return (rt.ST_PARTIAL if n < len(want) else rt.ST_OK), (), want[:n]
        return rt.ST_NOT_SUPPORTED, (), b""

    # ---- tag addressing -------------------------------------------------------------------------------------------------------------
    def resolve(self, segs):
        """request path -> (Loc | None, error status tuple | None)"""
        segs = list(segs)
        prj = self.prj
        program = None
        if segs and segs[0][0] == "symbol" and segs[0][1].startswith("Program:"):
            pn = segs.pop(0)[1][len("Program:"):]
            if pn not in prj.programs:
                return None, (rt.ST_PATH_UNKNOWN, ())
            program = pn
        if not segs:
            return None, (rt.ST_PATH_SYNTAX, ())
        if segs[0][0] == "symbol":
            tag = prj.find(segs.pop(0)[1], program)
            if tag is None:
                return None, (rt.ST_PATH_UNKNOWN, ())
        elif segs[0] == ("logical", "class", 0x6B):
            if prj.micro800 or prj.fw_major < 21:
                return None, (rt.ST_PATH_UNKNOWN, ())   # symbol-instance addressing needs v21+
            if len(segs) < 2 or segs[1][:2] != ("logical", "instance"):
                return None, (rt.ST_PATH_SYNTAX, ())
            tag = prj.find_instance(segs[1][2], program)
            segs = segs[2:]
            if tag is None:
                return None, (rt.ST_PATH_UNKNOWN, ())
        else:
            return None, (rt.ST_PATH_SYNTAX, ())
        steps = []
        for s in segs:
            if s[0] == "symbol":
                steps.append(("name", s[1]))
            elif s[:2] == ("logical", "member"):
                if steps and steps[-1][0] == "index":
                    steps[-1][1].append(s[2])
                else:
                    steps.append(("index", [s[2]]))
            else:
                return None, (rt.ST_PATH_SYNTAX, ())
        # walk
        dtype, off = tag.dtype, 0
        dims = tag.dims or None
        avail = tag.elements
        bit = None
        for kind, val in steps:
            if bit is not None:
                return None, (rt.ST_PATH_UNKNOWN, ())
            if kind == "index":
                if dims is None:
                    return None, (rt.ST_PATH_UNKNOWN, ())
                if len(val) != len(dims):
                    return None, (rt.ST_GENERAL, (EXT_BEYOND,))
                lin = 0
                for dmax, x in zip(dims, val):
                    if x >= dmax:
                        return None, (rt.ST_GENERAL, (EXT_BEYOND,))
                    lin = lin * dmax + x
                off += lin * dtype.size
                avail -= lin
                dims = None
            else:
                if dtype.kind == "atomic":
                    return None, (rt.ST_PATH_UNKNOWN, ())
                m = dtype.member(val)
                if m is None:
                    return None, (rt.ST_PATH_UNKNOWN, ())
                if m.is_bit:
                    dtype, off, avail, bit, dims = rpj.ATOM_TYPES["BOOL"], off + m.offset, 1, m.bit, None
                else:
                    off += m.offset
                    dtype = m.dtype
                    dims = (m.array_len,) if m.array_len else None
                    avail = m.array_len or 1
        return rpj.Loc(tag, dtype, off, avail, bit=bit, is_bool_member=bit is not None), None

    @staticmethod
    def type_header(loc):
        dt = loc.dtype
        if dt.is_struct:
            return b"\xa0\x02" + dt.handle.to_bytes(2, "little")
        hi = 0
        if dt.name == "BOOL":
            hi = loc.bit if loc.is_bool_member else loc.tag.bool_bit
        return bytes([dt.code, hi])

    def read_bytes(self, loc, count):
        if loc.is_bool_member:
            return bytes([self.true_byte if loc.tag.data[loc.offset] >> loc.bit & 1 else 0])
        return bytes(loc.tag.data[loc.offset:loc.offset + loc.dtype.size * count])

    # ---- tag services ---------------------------------------------------------------------------------------------------------------
    def tag_service(self, rq):
        loc, err = self.resolve(rq.segs)
        if err is not None:
            return err[0], err[1], b""
        if self.inject_status is not None:
            inj = self.inject_status(rq, loc)
            if inj is not None:
                return inj[0], inj[1], b""
        svc, d = rq.service, rq.data
        cap = rq.capacity if rq.capacity is not None else 480
        connkey = id(rq.conn)
        if svc in (0x4C, 0x52):
            need = 2 if svc == 0x4C else 6
            if len(d) != need:
                return (rt.ST_NOT_ENOUGH if len(d) < need else rt.ST_TOO_MUCH), (), b""
            count = int.from_bytes(d[:2], "little")
            if count < 1 or count > loc.avail:
                return rt.ST_GENERAL, (EXT_BEYOND,), b""
            hdr = self.type_header(loc)
            value = self.read_bytes(loc, count)
            total = len(value)
            if svc == 0x4C:
                self.reads_executed.append(("read", rq.embedded, total))
                room = cap - len(hdr)
                if total > room:
                    self.events.append(("reply_too_large", {"service": "read_tag", "bytes": total + len(hdr), "capacity": cap, "embedded": rq.embedded}))
                    self.log.v("C04", "read-reply-exceeds-connection", f"Read Tag of {total} data bytes (+{len(hdr)} type) solicited over a connection whose reply capacity is {cap} bytes"
                               f"{' inside a Multiple Service Packet' if rq.embedded else ''}", {"total": total, "capacity": cap, "embedded": rq.embedded})
                    return rt.ST_PARTIAL, (), hdr + value[:max(0, room)]
                return rt.ST_OK, (), hdr + value
            offset = int.from_bytes(d[2:6], "little")
            key = (connkey, bytes(rq.path), count)
            prev = self.read_transfers.get(key)
            if offset == 0:
                self.read_transfers[key] = 0
            else:
                if prev is None or offset != prev:
                    self.log.v("C04", "read-fragment-offset", f"Read Tag Fragmented asks for offset {offset}; {prev if prev is not None else 'no'} bytes of this transfer were returned so far (total {total})",
                               {"offset": offset, "received": prev, "total": total})
            if offset > total:
                return rt.ST_GENERAL, (EXT_BEYOND,), b""
            room = cap - len(hdr)
            remaining = total - offset
            mode = self.read_frag
            n = remaining if mode == "full" else self.rng.randint(1, max(1, remaining)) if mode == "random" else self.rng.randint(1, 8)
            n = max(1 if remaining else 0, min(n, room, remaining))
            self.read_transfers[key] = offset + n
            self.reads_executed.append(("read_frag", rq.embedded, n))
            self.log.c("read-fragments")
            if offset + n >= total:
                self.read_transfers.pop(key, None)
                return rt.ST_OK, (), hdr + value[offset:offset + n]
            return rt.ST_PARTIAL, (), hdr + value[offset:offset + n]
        if svc in (0x4D, 0x53):
            if len(d) < 2:
                return rt.ST_NOT_ENOUGH, (), b""
            if d[0] == 0xA0 and d[1] == 0x02:
                if len(d) < 4:
                    return rt.ST_NOT_ENOUGH, (), b""
                given, o = ("struct", int.from_bytes(d[2:4], "little")), 4
            else:
                given, o = ("atomic", d[0]), 2
            want = ("struct", loc.dtype.handle) if loc.dtype.is_struct else ("atomic", loc.dtype.code)
            if given != want:
                return rt.ST_GENERAL, (EXT_TYPE_MISMATCH,), b""
            if len(d) < o + 2:
                return rt.ST_NOT_ENOUGH, (), b""
            count = int.from_bytes(d[o:o + 2], "little")
            o += 2
            if count < 1 or count > loc.avail:
                return rt.ST_GENERAL, (EXT_BEYOND,), b""
            total = loc.dtype.size * count
            if svc == 0x4D:
                data = d[o:]
                if len(data) != total:
                    return (rt.ST_NOT_ENOUGH if len(data) < total else rt.ST_TOO_MUCH), (), b""
                self.apply_write(loc, 0, data)
                self.write_journal.append({"kind": "write", "tag": loc.tag.full_name, "offset": loc.offset, "len": total, "count": count,
                                           "bit": loc.bit, "embedded": rq.embedded, "data": bytes(data)})
                return rt.ST_OK, (), b""
            if len(d) < o + 4:
                return rt.ST_NOT_ENOUGH, (), b""
            offset = int.from_bytes(d[o:o + 4], "little")
            data = d[o + 4:]
            key = (connkey, bytes(rq.path), count)
            tr = self.write_transfers.get(key)
            if offset == 0 or tr is None:
                if offset != 0:
                    self.log.v("C04", "write-fragment-offset", f"first Write Tag Fragmented of a transfer carries offset {offset} (0 expected)", {"offset": offset, "total": total})
                tr = self.write_transfers[key] = {"sum": 0, "total": total, "tag": loc.tag.full_name}
            if offset != tr["sum"]:
                self.log.v("C04", "write-fragment-offset", f"Write Tag Fragmented carries offset {offset}; {tr['sum']} bytes of this transfer were sent so far (total {total})",
                           {"offset": offset, "sent": tr["sum"], "total": total})
            if len(data) == 0 or offset + len(data) > total:
                return (rt.ST_NOT_ENOUGH if len(data) == 0 else rt.ST_TOO_MUCH), (), b""
            self.apply_write(loc, offset, data)
            tr["sum"] = offset + len(data)
            self.write_journal.append({"kind": "write_frag", "tag": loc.tag.full_name, "offset": loc.offset + offset, "len": len(data), "count": count,
                                       "bit": None, "embedded": rq.embedded, "data": bytes(data), "frag_offset": offset, "total": total})
            self.log.c("write-fragments")
            if tr["sum"] >= total:
                self.write_transfers.pop(key, None)
            return rt.ST_OK, (), b""
        if svc == 0x4E:
            if len(d) < 2:
                return rt.ST_NOT_ENOUGH, (), b""
            size = int.from_bytes(d[:2], "little")
            dt = loc.dtype
            if dt.is_struct or dt.name in ("REAL", "LREAL", "BOOL") or loc.is_bool_member:
                return rt.ST_GENERAL, (EXT_TYPE_MISMATCH,), b""
            if len(d) != 2 + 2 * size:
                self.write_journal.append({"kind": "rmw-rejected", "tag": loc.tag.full_name, "offset": loc.offset, "len": len(d), "size": size, "embedded": rq.embedded})
                return (rt.ST_NOT_ENOUGH if len(d) < 2 + 2 * size else rt.ST_TOO_MUCH), (), b""
            if size != dt.size:
                self.write_journal.append({"kind": "rmw-rejected", "tag": loc.tag.full_name, "offset": loc.offset, "len": len(d), "size": size, "embedded": rq.embedded})
                return rt.ST_GENERAL, (EXT_TYPE_MISMATCH,), b""
            orm = int.from_bytes(d[2:2 + size], "little")
            andm = int.from_bytes(d[2 + size:2 + 2 * size], "little")
            cur = int.from_bytes(loc.tag.data[loc.offset:loc.offset + size], "little")
            new = (cur | orm) & andm
            loc.tag.data[loc.offset:loc.offset + size] = new.to_bytes(size, "little")
            self.write_journal.append({"kind": "rmw", "tag": loc.tag.full_name, "offset": loc.offset, "len": size, "or": orm, "and": andm,
                                       "embedded": rq.embedded})
            return rt.ST_OK, (), b""
        return rt.ST_NOT_SUPPORTED, (), b""

    def apply_write(self, loc, rel, data):
        tag = loc.tag
        if loc.is_bool_member:
            if data[0]:
                tag.data[loc.offset] |= 1 << loc.bit
            else:
                tag.data[loc.offset] &= ~(1 << loc.bit) & 0xFF
            return
        o = loc.offset + rel
        tag.data[o:o + len(data)] = data

    def finish_transfers(self):
        """call at quiescent points: fragmented write transfers must have covered their value exactly"""
        for key, tr in list(self.write_transfers.items()):
            self.log.v("C04", "write-transfer-incomplete", f"fragmented write of {tr['tag']} stopped after {tr['sum']} of {tr['total']} bytes", dict(tr))
        self.write_transfers.clear()
        for key, got in list(self.read_transfers.items()):
            pass
        self.read_transfers.clear()

    # ---- Multiple Service Packet ------------------------------------------------------------------------------------------------------
    def multi_service(self, rq):
        if self.prj.micro800:
            return rt.ST_NOT_SUPPORTED, (), b""
        if rq.logical("instance") != 1:
            return rt.ST_PATH_UNKNOWN, (), b""
        d = rq.data
        if len(d) < 2:
            return rt.ST_NOT_ENOUGH, (), b""
        n = int.from_bytes(d[:2], "little")
        if n == 0 or len(d) < 2 + 2 * n:
            return rt.ST_NOT_ENOUGH, (), b""
        offs = [int.from_bytes(d[2 + 2 * i:4 + 2 * i], "little") for i in range(n)]
        if offs[0] != 2 + 2 * n or any(b <= a for a, b in zip(offs, offs[1:])) or offs[-1] >= len(d):
            self.log.v("C11", "multi-service-offsets", f"Multiple Service Packet offsets {offs} do not tile the {len(d)}-byte service list", d[:60])
            return rt.ST_PATH_SYNTAX, (), b""
        cap = rq.capacity if rq.capacity is not None else 480
        remaining = cap - 2 - 2 * n
        replies = []
        any_err = False
        self.log.c("multi-service-packets")
        self.log.c("multi-service-embedded", n)
        for i in range(n):
            msg = d[offs[i]:offs[i + 1] if i + 1 < n else len(d)]
            svc = msg[0] if msg else 0
            if len(msg) < 2 or 2 + 2 * msg[1] > len(msg):
                self.log.v("C09", "path-size", f"embedded service {i}: path size exceeds the service bytes", bytes(msg[:40]))
                rep = rt.mr_reply(svc & 0x7F, rt.ST_PATH_SYNTAX)
            else:
                path = msg[2:2 + 2 * msg[1]]
                try:
                    from . import refepath
                    segs = [s[:3] for s in refepath.parse_padded(path)]
                    self.log.c("paths-parsed")
                except Exception as e:  # noqa
                    self.log.v("C09", "malformed-path", f"embedded request path {bytes(path).hex()} (service {svc:#x}): {e}", bytes(msg[:60]))
                    segs = None
                if segs is None:
                    rep = rt.mr_reply(svc & 0x7F, rt.ST_PATH_SYNTAX)
                else:
                    sub = rt.MRRequest(svc, path, segs, msg[2 + 2 * msg[1]:], rq.transport, route=rq.route, conn=rq.conn,
                                       capacity=max(0, remaining - 4))
                    sub.embedded = True
                    st, ext, rdata = self.handle(sub)
                    rep = rt.mr_reply(svc, st, ext, rdata)
            if len(rep) > remaining:
                self.events.append(("reply_too_large", {"service": "multi", "index": i}))
                self.log.v("C04", "multi-service-reply-exceeds-connection", f"the replies to a {n}-service Multiple Service Packet do not fit the connection's reply capacity of {cap} bytes (service {i})",
                           {"n": n, "capacity": cap})
                rep = rt.mr_reply(svc & 0x7F, rt.ST_REPLY_TOO_LARGE)[:max(4, remaining)]
            remaining -= len(rep)
            if rep[2] != 0:
                any_err = True
            replies.append(rep)
        out = n.to_bytes(2, "little")
        # the offsets say where each reply starts: a target may leave room between the offset table and the first reply (e.g. to
        # start the replies on a 4-byte boundary) - where a reply is, is what its offset says
        lead = (4 - (2 + 2 * n) % 4) % 4 if self.multi_lead_pad == 2 else self.multi_lead_pad   # 2 = "align to 4", 4 = a fixed gap
        if remaining < lead:
            lead = 0
        o = 2 + 2 * n + lead
        for r in replies:
            out += o.to_bytes(2, "little")
            o += len(r)
        out += bytes(lead) + b"".join(replies)
        if lead:
            self.log.c("multi-service-replies-with-room-after-the-offset-table")
        return (rt.ST_EMBEDDED if any_err else rt.ST_OK), (), out
