"""Strict parser / builder for padded EPATHs (CIP Vol 1 Appendix C-1.4) - independent of pycomm3.

parse_padded(path_bytes) -> list of segments:
   ('port', port_number, link)         link: int (1-byte link address) or bytes (extended link address)
   ('logical', type_name, value, nbytes)
   ('symbol', name_str)                ANSI extended symbol segment 0x91
   ('data', bytes)                     simple data segment 0x80
Raises PathError with a reason for anything a strict target would refuse."""

LOGICAL_TYPES = {0: "class", 1: "instance", 2: "member", 3: "connection_point", 4: "attribute", 5: "special", 6: "service"}
LOGICAL_CODES = {v: k for k, v in LOGICAL_TYPES.items()}
PORT_ALIASES = {"backplane": 1, "bp": 1, "enet": 2, "dhrio-a": 2, "dhrio-b": 3, "dnet": 2, "cnet": 2, "dh485-a": 2, "dh485-b": 3}


class PathError(Exception):
    pass


def parse_padded(b):
    b = bytes(b)
    if len(b) % 2:
        raise PathError(f"odd path length {len(b)}")
    out, i, n = [], 0, len(b)
    while i < n:
        seg = b[i]
        stype = seg >> 5
        if stype == 0:  # port segment
            port = seg & 0x0F
            ext = bool(seg & 0x10)
            if port == 0:
                raise PathError("port identifier 0 is reserved")
            j = i + 1
            if port == 15:
                if j + 2 > n:
                    raise PathError("truncated extended port")
                port = int.from_bytes(b[j:j + 2], "little")
                j += 2
            if ext:
                if j >= n:
                    raise PathError("truncated port segment")
                ln = b[j]
                j += 1
                if ln < 2:
                    raise PathError(f"extended link address of size {ln}")
                if j + ln > n:
                    raise PathError("link address runs past the path")
                link = b[j:j + ln]
                j += ln
                if any(c < 0x21 or c > 0x7E for c in link):
                    raise PathError("extended link address is not a printable host/address string")
                if (j - i) % 2:
                    if j >= n or b[j] != 0:
                        raise PathError("missing pad byte after odd-length link address")
                    j += 1
            else:
                if j >= n:
                    raise PathError("truncated port segment")
                link = b[j]
                j += 1
                if (j - i) % 2:
                    raise PathError("port segment not word aligned")
            out.append(("port", port, link))
            i = j
        elif stype == 1:  # logical segment
            ltype = (seg >> 2) & 7
            fmt = seg & 3
            if ltype not in LOGICAL_TYPES:
                raise PathError(f"reserved logical type {ltype}")
            if fmt == 3:
                raise PathError("reserved logical format 0b11")
            if ltype in (5, 6):
                raise PathError("special/service-id logical segments are not expected here")
            if fmt == 0:
                if i + 2 > n:
                    raise PathError("truncated 8-bit logical segment")
                val, size, j = b[i + 1], 1, i + 2
            else:
                size = 2 if fmt == 1 else 4
                if i + 2 + size > n:
                    raise PathError("truncated logical segment")
                if b[i + 1] != 0:
                    raise PathError("missing pad byte in 16/32-bit logical segment")
                val = int.from_bytes(b[i + 2:i + 2 + size], "little")
                j = i + 2 + size
            out.append(("logical", LOGICAL_TYPES[ltype], val, size))
            i = j
        elif seg == 0x91:  # ANSI extended symbol
            if i + 2 > n:
                raise PathError("truncated symbolic segment")
            ln = b[i + 1]
            if ln == 0:
                raise PathError("empty symbol")
            if i + 2 + ln > n:
                raise PathError("symbol runs past the path")
            name = b[i + 2:i + 2 + ln]
            j = i + 2 + ln
            if ln % 2:
                if j >= n or b[j] != 0:
                    raise PathError("missing pad byte after odd-length symbol")
                j += 1
            if any(c < 0x20 or c > 0x7E for c in name):
                raise PathError("non-printable character in symbol")
            out.append(("symbol", name.decode("ascii")))
            i = j
        elif seg == 0x80:  # simple data segment
            if i + 2 > n:
                raise PathError("truncated data segment")
            words = b[i + 1]
            if i + 2 + 2 * words > n:
                raise PathError("data segment runs past the path")
            out.append(("data", b[i + 2:i + 2 + 2 * words]))
            i += 2 + 2 * words
        else:
            raise PathError(f"unexpected segment byte {seg:#04x} at offset {i}")
    return out


def parse_sized(b, pad_after_size=False):
    """path with its word-count prefix (and reserved byte when pad_after_size). -> (segments, total_len)"""
    b = bytes(b)
    if not b:
        raise PathError("missing path size")
    words = b[0]
    off = 1
    if pad_after_size:
        if len(b) < 2 or b[1] != 0:
            raise PathError("missing reserved byte after path size")
        off = 2
    if off + 2 * words > len(b):
        raise PathError(f"path size {words} words exceeds available {len(b) - off} bytes")
    return parse_padded(b[off:off + 2 * words]), off + 2 * words


# ---- builders (used for expectations and by the tiny self-test client) -------------------------------
def build_logical(type_name, value, force_size=None):
    code = LOGICAL_CODES[type_name]
    size = force_size or (1 if value <= 0xFF else 2 if value <= 0xFFFF else 4)
    seg = 0x20 | (code << 2) | {1: 0, 2: 1, 4: 2}[size]
    if size == 1:
        return bytes([seg, value])
    return bytes([seg, 0]) + value.to_bytes(size, "little")


def build_symbol(name):
    raw = name.encode("ascii")
    return bytes([0x91, len(raw)]) + raw + (b"\x00" if len(raw) % 2 else b"")


def build_port(port, link):
    if isinstance(link, int):
        return bytes([port, link])
    raw = link if isinstance(link, bytes) else link.encode("ascii")
    out = bytes([port | 0x10, len(raw)]) + raw
    return out + (b"\x00" if len(out) % 2 else b"")


def selftest():
    n = 0
    # docs/usage/cipdriver.rst capture: get_plc_name request path 02 20 64 24 01
    assert parse_sized(bytes.fromhex("0220642401")) == ([("logical", "class", 0x64, 1), ("logical", "instance", 1, 1)], 5); n += 1
    assert build_logical("class", 0x64) + build_logical("instance", 1) == bytes.fromhex("20642401"); n += 1
    # CIP Vol 1 examples: 16-bit class 0x25 00 06 01? -> 21 00 06 01 ; 32-bit instance 26 00 xx xx xx xx
    assert parse_padded(bytes.fromhex("21000601")) == [("logical", "class", 0x0106, 2)]; n += 1
    assert parse_padded(bytes.fromhex("260045230100")) == [("logical", "instance", 0x12345, 4)]; n += 1
    assert build_logical("instance", 0x12345) == bytes.fromhex("260045230100"); n += 1
    for bad in ("270045230100", "2100", "20", "2101ffff", "250006", "9100", "910161", "91026100", "1100"):
        try:
            parse_padded(bytes.fromhex(bad))
        except PathError:
            n += 1
        else:
            raise AssertionError(f"accepted malformed path {bad}")
    # 1756-PM020: tag 'rate' = 91 04 72 61 74 65 ; 'profile[0,1,257]' = 91 07 'profile' 00 28 00 28 01 29 00 01 01
    assert parse_padded(bytes.fromhex("910472617465")) == [("symbol", "rate")]; n += 1
    assert parse_padded(bytes.fromhex("910770726f66696c650028002801290001 01".replace(" ", ""))) == [
        ("symbol", "profile"), ("logical", "member", 0, 1), ("logical", "member", 1, 1), ("logical", "member", 257, 2)]; n += 1
    assert build_symbol("profile") == bytes.fromhex("910770726f66696c6500"); n += 1
    # port segments: backplane slot 0 = 01 00 ; enet 10.1.2.30 -> 12 09 '10.1.2.30' 00
    assert parse_padded(bytes.fromhex("0100")) == [("port", 1, 0)]; n += 1
    assert build_port(2, "10.1.2.30") == b"\x12\x09" + b"10.1.2.30" + b"\x00"; n += 1
    assert parse_padded(build_port(2, "10.1.2.30") + build_port(1, 3)) == [("port", 2, b"10.1.2.30"), ("port", 1, 3)]; n += 1
    assert parse_padded(build_port(2, "10.1.2.3")) == [("port", 2, b"10.1.2.3")]; n += 1
    for bad in ("120931302e312e322e3330", "120a31302e312e322e333000", "0000", "01"):
        try:
            parse_padded(bytes.fromhex(bad))
        except PathError:
            n += 1
        else:
            raise AssertionError(f"accepted malformed port path {bad}")
    return n
