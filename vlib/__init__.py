"""Runtime-monitoring harness for pycomm3 (see /verif/DESIGN.md)."""
