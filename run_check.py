#!/venv/bin/python -B
"""Entry point for every registered check.

  run_check.py <ID> --tier quick|thorough            parent: shards -> merge -> evidence -> verdict
  run_check.py <ID> --tier T --shard i/n --shard-out F   child: one shard, writes its Result
  run_check.py <ID> --replay replays/<file>.json      re-run the recorded tier/seed, report that key

Exit 0 held / 1 violation (VIOLATION line) / 2 inconclusive."""
import argparse
import importlib
import json
import os
import sys
import time
import traceback

sys.dont_write_bytecode = True
HERE = os.path.dirname(os.path.abspath(__file__))
sys.path.insert(0, HERE)

from vlib import common  # noqa: E402


class Ctx:
    def __init__(self, pid, tier, seed, shard, nshards):
        self.pid, self.tier, self.seed, self.shard, self.nshards = pid, tier, seed, shard, nshards
        self.quick = tier == "quick"

    def rng(self, salt=""):
        return common.rng_for(self.pid, self.seed, self.shard, salt)

    def mine(self, index):
        """Round-robin partition of enumerated work over shards."""
        return index % self.nshards == self.shard


def main():
    ap = argparse.ArgumentParser()
    ap.add_argument("pid")
    ap.add_argument("--tier", default=os.environ.get("VERIF_TIER", "quick"), choices=["quick", "thorough"])
    ap.add_argument("--shard")
    ap.add_argument("--shard-out")
    ap.add_argument("--replay")
    ap.add_argument("--inproc", action="store_true", help="debug: run shards in this process")
    a = ap.parse_args()
    pid = a.pid.upper()
    seed = common.seed_from_env()
    tier = a.tier
    if a.replay:
        with open(a.replay) as fh:
            rp = json.load(fh)
        tier, seed = rp.get("tier", tier), int(rp.get("seed", seed))
        os.environ["VERIF_SEED"] = str(seed)
        print(f"[replay] property={pid} key={rp.get('key')} tier={tier} seed={seed}")
        for c in rp.get("cases", [])[:1]:
            print("[replay] recorded witness:", json.dumps(c)[:1500])

    mod = importlib.import_module(f"checks.{pid.lower()}")

    if a.shard:
        i, n = (int(x) for x in a.shard.split("/"))
        try:  # a runaway generator must die as a harness crash (inconclusive), not take the machine down
            import resource
            resource.setrlimit(resource.RLIMIT_AS, (8 << 30, 8 << 30))
        except Exception:  # noqa
            pass
        from vlib.monitors import Reach
        reach = Reach().start()  # before the package is imported, so import-time code counts
        linecov = None
        if os.environ.get("VERIF_LINECOV_DIR"):  # diagnostic (tools/line_reach.py), never part of a verdict
            from vlib.monitors import LineCov
            linecov = LineCov().start()
        common.setup_repo()
        # Logging is configuration a user chooses; no property may depend on it.  Odd shards run with the package's loggers at DEBUG
        # and a handler that formats every record (lazily formatted arguments, guards like `if log.isEnabledFor(DEBUG)`, __repr__
        # of packets and segments then execute); even shards keep the default (nothing enabled below WARNING).
        debuglog = {"records": 0, "format_errors": 0}
        if i % 2 == 1 and os.environ.get("VERIF_NO_DEBUGLOG") != "1":
            import logging

            class _Sink(logging.Handler):
                def emit(self, record):
                    debuglog["records"] += 1
                    try:
                        record.getMessage()
                    except Exception:  # noqa - what the standard handlers do: report, never raise into the caller
                        debuglog["format_errors"] += 1
            logging.disable(logging.NOTSET)  # setup_repo() switches logging off altogether (the library logs every expected failure)
            lg = logging.getLogger("pycomm3")
            # shards 1, 5, 9 ...: the library's own VERBOSE level (5: every packet is formatted as a hex dump); shards 3, 7 ...: DEBUG
            lg.setLevel(5 if i % 4 == 1 else logging.DEBUG)
            lg.addHandler(_Sink())
            lg.propagate = False
        ctx = Ctx(pid, tier, seed, i, n)
        ctx.reach = reach
        try:
            res = mod.run(ctx)
            # Scenarios that died (a public call overran its step budget) are abandoned by the checks; what the passive wire
            # monitors of this property recorded BEFORE the death is still an observation and must not be lost with the scenario
            # (a client that re-sends one frame forever is exactly how a repeated sequence count looks).  Only monitors whose
            # findings cannot be artefacts of the abort itself: frames (C11), paths (C09), sequence counts (C17), sizes (C04).
            if pid in ("C04", "C09", "C11", "C17"):
                from vlib import bench as _bench
                for op_, b_ in _bench.DEAD_BENCHES:
                    for pid_, key_, what_, w_ in list(b_.log.violations):
                        if pid_ == pid:
                            res.violation(f"{key_}:scenario-died", f"{what_} [in a scenario that then died: {op_} overran its step budget]", {"detail": w_})
                    b_.log.violations[:] = [v_ for v_ in b_.log.violations if v_[0] != pid]
                res.count("scenarios-died", len(_bench.DEAD_BENCHES))
            reach.stop()
            res.count("debug-log-records-formatted", debuglog["records"])
            if sys.flags.optimize:
                res.count("shards-run-under-python-O")
            if debuglog["format_errors"]:
                res.count("debug-log-records-that-failed-to-format", debuglog["format_errors"])
            anchors = getattr(mod, "ANCHORS", None)
            if anchors:
                rep = reach.report(anchors)
                res.notes["anchors_total"] = rep["anchors_total"]
                res.notes["anchors_reached"] = rep["anchors_reached"]
                res.notes["anchors_missing"] = rep["anchors_missing"]
        except BaseException:  # harness failure: never a verdict about the library
            res = common.Result(pid)
            res.inconc(f"shard {i} harness crash: {traceback.format_exc()[-900:]}")
        if linecov is not None:
            linecov.stop()
            os.makedirs(os.environ["VERIF_LINECOV_DIR"], exist_ok=True)
            with open(os.path.join(os.environ["VERIF_LINECOV_DIR"], f"{pid}-{tier}-{seed}-{i}.json"), "w") as fh:
                json.dump(sorted(linecov.hit), fh)
        with open(a.shard_out, "w") as fh:
            json.dump(res.to_json(), fh)
        return 0

    t0 = time.monotonic()
    nshards = mod.SHARDS[tier]
    timeout = mod.TIMEOUT[tier]
    if a.inproc:
        common.setup_repo()
        merged = common.Result(pid)
        for i in range(nshards):
            c = Ctx(pid, tier, seed, i, nshards)
            c.reach = None
            merged.merge(mod.run(c))
    else:
        merged = common.run_shards(pid, tier, seed, nshards, timeout)
    code = common.finish(
        pid, tier, seed, mod.LEVEL, merged, mod.RULE, time.monotonic() - t0, mod.ASSUMPTIONS,
        extra_coverage={"shards": nshards},
        exhaustive=getattr(mod, "EXHAUSTIVE", False),
        min_evaluations=getattr(mod, "MIN_EVALUATIONS", {}).get(tier, 1),
    )
    return code


if __name__ == "__main__":
    sys.exit(main())
