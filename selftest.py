#!/venv/bin/python -B
"""setup_cmd: self-tests of the reference models (doc vectors, model-vs-model round trips).
Builds nothing: the framework is pure Python and the repo is imported from its working tree."""
import importlib, os, sys
sys.dont_write_bytecode = True
HERE = os.path.dirname(os.path.abspath(__file__))
sys.path.insert(0, HERE)
failed = 0
for name in ("refcodec", "refepath", "refencap", "refpath", "refproject", "reftarget", "refslc"):
    try:
        mod = importlib.import_module(f"vlib.{name}")
    except ModuleNotFoundError as e:
        if f"vlib.{name}" in str(e):
            continue
        raise
    st = getattr(mod, "selftest", None)
    if st is None:
        continue
    try:
        n = st()
        print(f"selftest {name}: ok ({n} vectors)")
    except Exception as e:  # noqa
        import traceback; traceback.print_exc()
        print(f"selftest {name}: FAILED {e!r}")
        failed += 1
for d in ("evidence", ".work", "replays"):
    os.makedirs(os.path.join(HERE, d), exist_ok=True)
sys.exit(1 if failed else 0)
