"""C17 - connected messages carry fresh sequence counts (per-connection sequence monitor in the reference target)."""
from vlib.bench import Bench, ScenarioDead
from vlib import common, lifecycle, logixreq
from vlib import refproject as rpj
from vlib.logixbench import LogixScenario

LEVEL = "exploration"
SHARDS = {"quick": 8, "thorough": 16}
TIMEOUT = {"quick": 900, "thorough": 3600}
MIN_EVALUATIONS = {"quick": 80000, "thorough": 80000}  # fewer oracle evaluations than this means the workload collapsed: inconclusive
RULE = ("the reference target compares the first two bytes of every connected data item with those of the previous item on the same connection "
        "(a repeat is also answered from its reply cache, like a real target).  Workloads: (a) histories of > 65 535 real connected requests on "
        "one connection so the 16-bit counter wraps inside real traffic - one request kind per shard {generic message, single read, multi-tag "
        "read, 2-/3-fragment read followed by single requests, fragmented write, bit writes, single writes, tag upload, a fragmented read during "
        "which the target answers one fragment 'partial transfer' with zero value bytes, a stand-alone read / write refused once with 0x04 / 0x05 "
        "(instance addressing) followed by further requests}; (b) for every request "
        "kind the driver's counter is advanced to within +-12 of the wrap (by drawing values from it, the state a long history reaches) and "
        ">= 40 real requests are issued across the wrap, for every phase offset; (c) lifecycle histories incl. redundant open() / with-blocks on an "
        "open driver, with lost replies / resets (a resent frame would repeat its count); (d) bulk read()/write() calls of n requests for n around "
        "every power of two up to 32 769 (many counts drawn between two frames, several multi-service packets back to back); (e) SLC histories of reads, writes, bit reads, get_datalog_queue, "
        "get_processor_type, get_file_directory; (f) two drivers with a connection each in one process: bursts of 65533 / 65534 / 65535 messages of one between two messages of "
        "the other; the project holds a 48-member structure so that uploads need several template-read messages; the stand-in for os.urandom returns edge values "
        "(all ones, all zeros, near the top of the range) in a quarter of the calls.  distinct = (request kind, phase offset | history, wrapped?) executed")
ASSUMPTIONS = [
    "workload (b) uses the driver's `_sequence` generator to reach the pre-wrap state quickly; when that attribute is absent only (a) and (c) run",
    "one connection at a time; counts are compared per connection",
]
ANCHORS = [
    ("pycomm3/util.py", "cycle"), ("pycomm3/packets/ethernetip.py", "SendUnitDataRequestPacket.__init__"),
    ("pycomm3/packets/ethernetip.py", "SendUnitDataRequestPacket._setup_message"), ("pycomm3/packets/logix.py", "ReadTagFragmentedRequestPacket.from_request"),
    ("pycomm3/packets/logix.py", "WriteTagFragmentedRequestPacket.from_request"),
]
KINDS = ["generic", "read1", "readN", "frag2", "frag3", "wfrag", "bits", "write1", "upload", "fragempty", "refused1", "mixed"]


def project(rng):
    b = rpj.ProjectBuilder(rng, fw=32)
    b.tag("d1", "DINT")
    b.tag("d2", "DINT")
    b.tag("i1", "INT")
    b.tag("r1", "REAL")
    b.tag("arr", "DINT", (3000,))
    b.tag("bits", "DWORD", (2,))
    # a structure with many members: its template does not fit one reply on a 500-byte connection, and the target may answer template
    # reads a few bytes at a time anyway - the upload (open() and the "upload" request kind) then needs several template-read messages
    u = b.udt("Recipe_q", [(f"member_with_a_long_name_{i:03d}", rng.choice(["DINT", "REAL", "INT"]), 0) for i in range(48)])
    b.tag("recipe", u)
    return b.done()


def issue(sc, kind, rng):
    """one public call of the given kind; returns False if it failed"""
    d, b = sc.drv, sc.b
    if kind == "mixed":
        kind = rng.choice(KINDS[:-1])
    if kind == "generic":
        st, out = b.call("gm", d.generic_message, service=0x0E, class_code=0x01, instance=1, attribute=1)
    elif kind == "read1":
        st, out = b.call("read", d.read, "d1")
    elif kind == "readN":
        st, out = b.call("read", d.read, "d1", "d2", "i1", "r1")
    elif kind in ("frag2", "frag3"):
        # a read that needs exactly 2 (3) fragments on the 4000-byte connection, then single requests
        n = 1500 if kind == "frag2" else 2600
        st, out = b.call("read", d.read, f"arr{{{n}}}")
        if st == "ok" and out:
            st, out = b.call("read", d.read, "d1")
    elif kind == "refused1":
        # a single Read / Write Tag (addressed by symbol instance on this firmware) refused with "path segment error" /
        # "destination unknown": whatever the client does next - give up, or ask again another way - is a new message
        st_ = rng.choice([0x04, 0x05])
        seen = {"n": 0}

        def refuse_once(rq, seen=seen, st_=st_):
            if rq.service not in (0x4C, 0x4D) or rq.embedded:
                return None
            seen["n"] += 1
            return (st_, (), b"") if seen["n"] == 1 else None
        sc.dev.force_status = refuse_once
        if rng.random() < 0.5:
            b.call("read", d.read, "d2")
        else:
            b.call("write", d.write, "d2", rng.randrange(1000))
        sc.dev.force_status = None
        st, out = b.call("read", d.read, "d1")
    elif kind == "fragempty":
        # an unusual but legal target: one fragment is answered "partial transfer" (0x06) with the type code and NO value bytes;
        # the client asks again for the same offset - in a new message, with a new sequence count
        seen = {"n": 0}

        def empty_fragment(rq, seen=seen):
            if rq.service != 0x52 or rq.embedded:
                return None
            seen["n"] += 1
            return (6, (), b"\xc4\x00") if seen["n"] == 2 else None
        sc.dev.force_status = empty_fragment
        b.call("read", d.read, "arr{2600}")
        sc.dev.force_status = None
        sc.dev.finish_transfers()
        st, out = b.call("read", d.read, "d1")
    elif kind == "wfrag":
        st, out = b.call("write", d.write, "arr{1500}", list(range(1500)))
        if st == "ok" and out:
            st, out = b.call("gm", d.generic_message, service=0x0E, class_code=0x01, instance=1, attribute=1)
    elif kind == "bits":
        st, out = b.call("write", d.write, ("d1.3", True), ("d1.4", False), ("d2.0", True), ("bits[5]", True))
    elif kind == "write1":
        st, out = b.call("write", d.write, "d2", rng.randrange(1000))
    elif kind == "upload":
        st, out = b.call("get_tag_list", d.get_tag_list)
        return st == "ok"
    else:
        raise ValueError(kind)
    if st != "ok":
        return False
    return all(out) if isinstance(out, list) else bool(out)


def drain(res, b, what):
    for pid, key, msg, w in b.log.violations:
        if pid == "C17":
            res.violation(f"{key}:{what.split(':')[0]}", f"{msg} [{what}]", {"scenario": what, "detail": w})
    b.log.violations.clear()


def died(res, sc, what):
    """A scenario that died (a public call overran its step budget) still hands over what the sequence monitor saw before:
    a client that keeps re-sending one frame is exactly how a repeated count looks."""
    res.count("scenarios-died")
    if sc is not None:
        try:
            drain(res, sc.b, what + ":died")
        finally:
            try:
                sc.b.close()
            except Exception:  # noqa
                pass


def give_up(res):
    """Scenario after scenario dying (each burns its whole step budget first) while the sequence monitor has already reported:
    the verdict is in, the remaining workload would only run into the wall-clock watchdog and turn it into 'inconclusive'."""
    return res.counters.get("scenarios-died", 0) >= 3 and bool(res.violations)


def run(ctx):
    res = common.Result("C17")
    rng = ctx.rng()
    quick = ctx.quick
    # ---- (a) one real wrap per shard -------------------------------------------------------------------------------------------
    kind = KINDS[ctx.shard % len(KINDS)]
    sc = None
    try:
        sc = LogixScenario(rng, config=("fw32", 32, False, True), project=project(rng))
        sc.dev.read_frag = "full"
        if sc.ok():
            target_msgs = 66500 if (quick and ctx.shard < 4) or not quick else 0
            fails = 0
            while sc.b.log.counts.get("connected-messages", 0) < target_msgs:
                k = kind if sc.b.log.counts.get("connected-messages", 0) > 64000 or kind in ("generic", "read1", "write1") else "generic"
                if not issue(sc, k, rng):
                    fails += 1
                    if fails > 20:
                        res.violation(f"requests-fail-in-long-history:{kind}", f"more than 20 failing {kind} requests in a long history (around message {sc.b.log.counts.get('connected-messages', 0)})", None)
                        break
                res.ev()
            res.seen("long", kind, sc.b.log.counts.get("sequence-wraps", 0) > 0)
            res.count("connected-messages", sc.b.log.counts.get("connected-messages", 0))
            res.count("wraps-observed", sc.b.log.counts.get("sequence-wraps", 0))
            drain(res, sc.b, f"long-history:{kind}")
        else:
            res.violation("open-failed", f"open -> {sc.opened!r:.200}", None)
        sc.close()
    except ScenarioDead:
        died(res, sc, f"long-history:{kind}")
    # ---- (b) every kind x phase offset around the wrap ------------------------------------------------------------------------------
    phases = list(range(-12, 3)) if quick else list(range(-40, 6))
    idx = 0
    for kind in KINDS:
        for ph in phases:
            idx += 1
            if not ctx.mine(idx):
                continue
            sc = None
            try:
                sc = LogixScenario(rng, config=("fw32", 32, False, True), project=project(rng))
                if not sc.ok():
                    sc.close()
                    continue
                seq = getattr(sc.drv, "_sequence", None)
                if seq is None or not hasattr(seq, "__next__"):
                    res.dont_care("no-_sequence-generator: phase workload skipped")
                    sc.close()
                    continue
                try:
                    cur = next(seq)
                    steps = (65535 + ph - cur) % 65535
                    for _ in range(steps):
                        next(seq)
                except StopIteration:
                    # the counter of a connection has no end: a generator that runs out leaves the driver without counts
                    res.ev()
                    res.violation("sequence-counter-exhausted", f"the driver's sequence counter stopped yielding values on the way to the wrap (phase {ph:+d}, request kind {kind})", None)
                    sc.close()
                    continue
                for c_ in sc.target.connections.values():
                    c_.last_seq = c_.last_reply = None   # the jump was made by the harness, not by traffic
                before = sc.b.log.counts.get("connected-messages", 0)
                n_issue = 0
                while sc.b.log.counts.get("connected-messages", 0) - before < 40 and n_issue < 60:
                    ok = issue(sc, kind, rng)
                    n_issue += 1
                    res.ev()
                    if not ok:
                        res.violation(f"request-fails-at-wrap:{kind}", f"{kind} request #{n_issue} failed with the sequence counter started {ph:+d} from the wrap", {"kind": kind, "phase": ph})
                        break
                res.seen("phase", kind, ph, sc.b.log.counts.get("sequence-wraps", 0) > 0)
                res.count("wraps-observed", sc.b.log.counts.get("sequence-wraps", 0))
                res.count("connected-messages", sc.b.log.counts.get("connected-messages", 0))
                drain(res, sc.b, f"phase:{kind}:{ph:+d}")
                sc.close()
            except ScenarioDead:
                died(res, sc, f"phase:{kind}:{ph:+d}")
                if give_up(res):
                    return res
                continue
    # ---- (d) bulk calls: many requests in one call draw many counts between two frames (several multi-service packets back to back) --------
    bulk = [2, 3, 15, 16, 17, 127, 128, 129, 215, 216, 217, 254, 255, 256, 257, 430, 511, 512, 513, 1023, 1024, 1025, 2047, 2048, 2049,
            4093, 4094, 4095, 4096, 4097, 8190, 8191, 8192, 8193, 16382, 16383, 16384, 16385, 32766, 32767, 32768, 32769]
    if not quick:
        bulk += list(range(200, 700, 7)) + [rng.randrange(2, 40000) for _ in range(60)]
    for bi, n in enumerate(bulk):
        if not ctx.mine(bi):
            continue
        sc = None
        try:
            sc = LogixScenario(rng, config=("fw32", 32, False, True) if bi % 3 else ("fw20-500", 20, False, False), project=project(rng))
            if not sc.ok():
                sc.close()
                continue
            sc.b.net.call_budget = 400000
            for op in ("read", "write"):
                issue(sc, "generic", rng)
                names = [rng.choice(["d1", "d2", "i1", "r1"]) for _ in range(n)]
                if op == "read":
                    st, out = sc.b.call("read", sc.drv.read, *names)
                else:
                    st, out = sc.b.call("write", sc.drv.write, *[(nm, 1) for nm in names])
                res.ev()
                res.seen("bulk", op, n)
                if st != "ok" or not isinstance(out, list) or not all(out):
                    bad = next((t for t in out if not t), out) if isinstance(out, list) else out
                    res.violation(f"bulk-{op}-fails", f"{op} of {n} tags in one call -> {bad!r:.160}", {"n": n})
                issue(sc, "generic", rng)
            res.count("connected-messages", sc.b.log.counts.get("connected-messages", 0))
            drain(res, sc.b, f"bulk:{n}")
            sc.close()
        except ScenarioDead:
            died(res, sc, f"bulk:{n}")
            if give_up(res):
                return res
            continue
    # ---- (e) SLC / PCCC traffic, including the rarely used public calls: every one of them sends connected messages -----------------------------
    if ctx.shard % 4 == 1:
        try:
            import pycomm3 as p
            from vlib.bench import Bench
            from vlib import refslc, reftarget as rt
            b = Bench(rng)
            sdev = refslc.SLCDevice(rt.Identity(name="1747-L552/C SLC 5/05"), rng, b.log, refslc.DataTable.random(rng))
            b.set_target(rt.RefTarget(rng, front=sdev, routes={((1, 0),): sdev}, policy=rt.Policy(), log=b.log))
            drv = p.SLCDriver(b.host)
            if b.call("open", drv.open)[0] == "ok":
                for i in range(30 if quick else 200):
                    op = rng.choice(["read", "read", "write", "bits", "datalog", "ptype", "filedir"])
                    if op == "read":
                        b.call(op, drv.read, f"N7:{rng.randrange(200)}", f"F8:{rng.randrange(100)}")
                    elif op == "write":
                        b.call(op, drv.write, (f"N7:{rng.randrange(200)}", rng.randrange(100)))
                    elif op == "bits":
                        b.call(op, drv.read, f"B3/{rng.randrange(256)}", f"I:{rng.randrange(8)}.{rng.randrange(4)}/{rng.randrange(16)}")
                    elif op == "datalog" and hasattr(drv, "get_datalog_queue"):
                        b.call(op, drv.get_datalog_queue, rng.choice([1, 2, 3]), rng.choice([0, 1]))
                    elif op == "ptype" and hasattr(drv, "get_processor_type"):
                        b.call(op, drv.get_processor_type)
                    elif op == "filedir" and hasattr(drv, "get_file_directory"):
                        b.call(op, drv.get_file_directory)
                    res.ev()
                    res.seen("slc", op)
                    if b.dead:
                        break
                res.count("connected-messages", b.log.counts.get("connected-messages", 0))
                if not b.dead:
                    b.call("close", drv.close)
            drain(res, b, "slc")
            b.close()
        except ScenarioDead:
            pass
    # ---- (f) two drivers in one process, each with its own connection: what one of them sends between two messages of the other - any
    # number of messages, also whole laps of a 16-bit counter - does not make the other repeat a count
    if ctx.shard % 8 == 5:
        try:
            import pycomm3 as p
            from vlib.bench import Bench
            from vlib import reftarget as rt
            b = Bench(rng)
            tA, devA = b.simple_target()
            devA.responder = lambda rq: (0, (), b"ok")
            devB = rt.Device(rt.Identity(serial=0xB0B0B0B0), rng, b.log)
            devB.responder = lambda rq: (0, (), b"ok")
            b.set_target(rt.RefTarget(rng, front=devB, routes={((1, 0),): devB}, policy=rt.Policy(), log=b.log), host="192.168.1.238")
            dA, dB = p.CIPDriver(b.host + "/bp/0"), p.CIPDriver("192.168.1.238/bp/0")
            if b.call("open", dA.open)[0] == "ok" and b.call("open", dB.open)[0] == "ok":
                def gm(d_):
                    return b.call("gm", d_.generic_message, service=0x0E, class_code=0x01, instance=1, attribute=7, connected=True)
                for n in ([65534, 65535, 65533] if quick else [65534, 65535, 65533, 65536, 131069, 131070, 7, 1]):
                    gm(dA)
                    for _ in range(n):
                        gm(dB)
                    gm(dA)
                    gm(dA)
                    res.ev()
                    res.seen("two-drivers", n)
                    if b.dead:
                        break
                res.count("connected-messages", b.log.counts.get("connected-messages", 0))
                if not b.dead:
                    b.call("close", dA.close)
                    b.call("close", dB.close)
            drain(res, b, "two-drivers")
            b.close()
        except ScenarioDead:
            pass
    # ---- (c) lost replies / resets: a retransmitted frame would repeat its count ----------------------------------------------------------
    prng = common.rng_for("C17", ctx.seed, 0, "plan")
    plan = [("cip", h) for h in lifecycle.histories(["open", "gm_conn", "gm_conn", "close"], 3)]
    plan += [("logix", tuple(prng.choice(["read", "write", "read_big", "gm_conn", "plc_name", "open", "with_ok", "close"]) for _ in range(5))) for _ in range(60 if quick else 500)]
    plan += [("logix", h) for h in lifecycle.histories(["open", "gm_conn", "with_ok", "plc_name"], 3)]
    for i, (kind_, hist) in enumerate(plan):
        if not ctx.mine(i):
            continue
        hist = ("open",) + tuple(hist)
        try:
            base = lifecycle.Run(rng, kind_, hist, "large-ok", None, init_tags=(i % 2 == 0)).execute()
        except ScenarioDead:
            continue
        drain(res, base.b, f"faults:{kind_}")
        n_ops = base.io_ops_total
        base.finish()
        for k in sorted({rng.randint(1, max(1, n_ops)) for _ in range(5 if quick else 20)}):
            for fk in ("recv-raise", "send-raise"):
                try:
                    r = lifecycle.Run(rng, kind_, hist, "large-ok", (k, fk), init_tags=(i % 2 == 0)).execute()
                except ScenarioDead:
                    continue
                res.ev()
                res.seen("fault", kind_, hist, k, fk)
                drain(res, r.b, f"faults:{kind_}:{fk}@{k}")
                r.finish()
    res.sample({"monitor": "per connection: seq(n) != seq(n-1)", "example": "..., 65534, 65535, 1, 2, ... (0 is skipped by the library's counter)"})
    return res
