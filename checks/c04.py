"""C04 - connected requests fit the connection; large data is tiled by fragments.
Deciding oracle: the reference target's online size / tiling monitors (it knows the size it granted at Forward Open
and logs every fragment offset), plus 'a tag of any size is readable and writable'."""
from vlib.bench import ScenarioDead
from vlib import common, logixreq
from vlib import refcodec as rc
from vlib import refproject as rpj
from vlib.logixbench import LogixScenario

LEVEL = "exploration"
SHARDS = {"quick": 8, "thorough": 16}
TIMEOUT = {"quick": 900, "thorough": 3000}
MIN_EVALUATIONS = {"quick": 5000, "thorough": 5000}  # fewer oracle evaluations than this means the workload collapsed: inconclusive
RULE = ("size sweep against a reference target that enforces the connection size it granted: for connection sizes {4000, 500 after a refused "
        "Large Forward Open} x {read, write} x {single request, multi-request call with a small companion} x {symbolic, symbol-instance "
        "addressing} x tag-name lengths {1,2,15,16,39,40} x program scope: SINT arrays of EVERY length L in [S-w, S+w] (w = 24 quick / 60 "
        "thorough; additionally S/2 windows for writes), INT/DINT/LINT/structure/string arrays hitting the same byte windows, sizes 1..3S at "
        "coarse steps and random, target fragment sizes {maximal, random, 1-8 bytes}; brim-filling mixes of many small tags with long names. "
        "Monitors: request item <= granted size, complete reply of every Read Tag / multi-service read <= granted size, fragment offsets "
        "start at 0 and equal bytes already transferred, write fragments tile the value exactly, every transfer succeeds with the right "
        "value. distinct = (op, path, addressing, name length, type, byte offset from the connection size, fragment mode) evaluated")
ASSUMPTIONS = [
    "connection size = maximum length of the connected data item including its 2-byte sequence count, in each direction",
    "the target answers an over-size solicited reply with status 0x06 and the part that fits, like a controller",
]
ANCHORS = [
    ("pycomm3/logix_driver.py", "LogixDriver._read_build_multi_requests"), ("pycomm3/logix_driver.py", "LogixDriver._read_build_single_request"),
    ("pycomm3/logix_driver.py", "_tag_return_size"), ("pycomm3/logix_driver.py", "LogixDriver._write_build_multi_requests"),
    ("pycomm3/logix_driver.py", "LogixDriver._write_build_single_request"), ("pycomm3/logix_driver.py", "LogixDriver._send_write_fragmented"),
    ("pycomm3/logix_driver.py", "LogixDriver._send_read_fragmented"), ("pycomm3/cip_driver.py", "with_forward_open"),
    ("pycomm3/cip_driver.py", "CIPDriver._forward_open"),
]
NAME_LENS = [1, 2, 15, 16, 39, 40]


def build_project(rng, fw, micro, S):
    b = rpj.ProjectBuilder(rng, fw=fw, micro800=micro)
    big = 3 * S + 100
    info = {"sint": {}, "other": []}
    for nl in NAME_LENS:
        nm = ("s" + "x" * 60)[:nl] if nl > 1 else "s"
        nm = nm[:-1] + str(nl % 10) if nl > 2 else nm
        info["sint"][nl] = b.tag(nm, "SINT", (big,), small_instance=rng.choice([True, None, None, False]))
    info["prog_sint"] = b.tag("ps", "SINT", (big,), program="MainProgram")
    info["other"].append(b.tag("w_int", "INT", (big // 2 + 40,)))
    info["other"].append(b.tag("w_dint", "DINT", (big // 4 + 40,)))
    info["other"].append(b.tag("w_lint", "LINT", (big // 8 + 40,)))
    info["other"].append(b.tag("w_real", "REAL", (S // 4 + 40, 2)))
    u12 = b.udt("U12", [("a", "DINT", 0), ("f0", "BOOL", 0), ("f1", "BOOL", 0), ("b", "INT", 0), ("c", "SINT", 2)])
    info["other"].append(b.tag("w_u12", u12, (big // u12.size + 10,)))
    s20 = b.string_type("STR20", 20)
    info["other"].append(b.tag("w_str", s20, (big // s20.size + 10,)))
    for cap in (S - 12, S - 8, S - 4, S, S + 4, 2 * S + 20):
        st = b.string_type(f"STRC{cap}", cap)
        info["other"].append(b.tag(f"one_str_{cap}", st, ()))
    info["companion"] = b.tag("tiny", "DINT", ())
    info["small"] = [b.tag(("d%03d_" % i + "n" * 40)[:rng.choice([6, 20, 35, 40])], "DINT", (), program=("MainProgram" if i % 3 == 0 else None)) for i in range(130)]
    info["small_str"] = [b.tag("st%02d" % i, s20, ()) for i in range(30)]
    return b.done(), info


def run(ctx):
    res = common.Result("C04")
    rng = ctx.rng()
    quick = ctx.quick
    w = 24 if quick else 60
    combos = []
    for large in (True, False):
        for fw in (20, 32):                      # symbolic vs symbol-instance addressing
            for op in ("read", "write"):
                for path in ("single", "multi"):
                    for frag in ("full", "random", "tiny"):
                        combos.append((large, fw, False, op, path, frag))
    for large in (True, False):
        for op in ("read", "write"):
            combos.append((large, 12, True, op, "single", "full"))   # Micro800: no multi-service, no instance ids
    for ci, (large, fw, micro, op, path, frag) in enumerate(combos):  # WRAPPED
        if not ctx.mine(ci):
            continue
        try:
            S = 4000 if large else 500
            label = f"{'micro800' if micro else 'fw%d' % fw}-{S}"
            prj, info = build_project(rng, fw, micro, S)
            sc = LogixScenario(rng, config=(label, fw, micro, large), project=prj)
            sc.dev.read_frag = frag
            log = sc.b.log
            res.count("scenarios")
            if not sc.ok():
                res.ev()
                res.violation("open-failed", f"LogixDriver.open() ({label}) -> {sc.opened!r:.300}", {"config": label})
                continue
            if sc.drv.connection_size != S:
                res.violation("negotiated-size", f"driver reports connection_size {sc.drv.connection_size}, target granted {S}", {"config": label})
            granted = [c.size for c in sc.target.connections.values()]
            if granted and granted[0] != S:
                res.violation("negotiated-size", f"the Forward Open the target accepted asked for {granted[0]} bytes; expected {S} ({label})", {"config": label})

            def one(tag, start, count, extra_tags=()):
                """one transfer of `count` elements of tag starting at element `start`"""
                dt = tag.dtype
                nbytes = dt.size * count
                text = tag.full_name + (f"[{start}]" if start is not None and tag.dims and len(tag.dims) == 1 else "") + (f"{{{count}}}" if tag.dims else "")
                if tag.dims and len(tag.dims) == 2:
                    text = tag.full_name + "[0,0]" + f"{{{count}}}"
                off = (start or 0) * dt.size
                req = logixreq.Req(text, tag, dt, off, count, bool(tag.dims), "value", avail=tag.elements - (start or 0), shape="sweep")
                nviol = len(log.violations)
                res.ev()
                key = (op, path, "inst" if fw >= 21 and not micro and not tag.program else "sym", len(tag.name), dt.name, max(-70, min(70, nbytes - S)), frag, micro)
                res.seen(*key)
                wit = {"request": text, "op": op, "path": path, "bytes": nbytes, "connection": S, "config": label, "fragments": frag, "name_len": len(tag.name)}
                if op == "read":
                    args = [text] + [t.full_name for t in extra_tags]
                    st, out = sc.b.call("read", sc.drv.read, *args)
                    t0 = out[0] if st == "ok" and isinstance(out, list) else out
                    ok = st == "ok" and bool(t0)
                    if ok:
                        eq, want = req.value_equal(t0.value)
                        if not eq:
                            res.violation(f"read-wrong-value:{path}", f"{op} {text} ({nbytes} B, connection {S}, fragments {frag}): reassembled value differs from the controller's memory", wit)
                else:
                    logixreq.attach_value(req, rng)
                    if dt.kind == "string" and not req.is_list:
                        req.value = "".join(chr(rng.randrange(0x20, 0x7F)) for _ in range(dt.capacity))
                    args = [(text, req.value)] + [(t.full_name, rng.randrange(1000)) for t in extra_tags]
                    st, out = sc.b.call("write", sc.drv.write, *args) if len(args) > 1 else sc.b.call("write", sc.drv.write, text, req.value)
                    sc.dev.finish_transfers()
                    t0 = out[0] if st == "ok" and isinstance(out, list) else out
                    ok = st == "ok" and bool(t0)
                    if ok:
                        want = logixreq.expected_written(req)
                        got = req.expected_value()
                        if not rc.values_equal(req.desc(), want, got):
                            res.violation(f"write-wrong-memory:{path}", f"write {text} ({nbytes} B, connection {S}): controller memory after the (fragmented) write differs from the value", wit)
                if not ok:
                    d = nbytes - S
                    cls_ = f"conn{d:+d}" if abs(d) <= 12 else ("near" if abs(d) <= 64 else "small" if d < 0 else "large")
                    res.violation(f"{op}-fails:{path}:{cls_ if abs(d) > 12 else 'at-connection-size'}",
                                  f"{op} {text} [{nbytes} data bytes, connection {S}, {path}, {label}, fragments {frag}] -> {t0!r:.200}", wit)
                new = log.violations[nviol:]
                for pid, k, what, wv in new:
                    if pid == "C04":
                        res.violation(f"{k}:{op}:{path}", f"{what} [{op} {text}, {nbytes} data bytes, {label}, {path}]", dict(wit, monitor=wv))
                del log.violations[nviol:]
                return ok

            companion = [info["companion"]] if path == "multi" else []
            if micro and path == "multi":
                continue
            # ---- SINT arrays: every length in the window around the connection size -----------------------------------------
            for nl in NAME_LENS:
                tag = info["sint"][nl]
                centers = [S] if op == "read" else [S, S // 2]
                lens = set()
                for c in centers:
                    lens |= set(range(c - w, c + w + 1))
                if frag == "tiny":
                    lens = {L for L in lens if L % 7 == nl % 7} if S > 1000 else {L for L in lens if L % 2 == nl % 2}
                elif nl not in (1, 40) and quick:
                    lens = {L for L in lens if L % 3 == nl % 3}
                for L in sorted(lens):
                    if L >= 1:
                        one(tag, rng.choice([None, 0, 3]), L, companion)
            tagp = info["prog_sint"]
            for L in range(S - (12 if quick else w), S + (13 if quick else w + 1)):
                if frag != "tiny" or L % 5 == 0:
                    one(tagp, 0, L, companion)
            # ---- other element types hitting the same byte windows ------------------------------------------------------------------
            for tag in info["other"]:
                sz = tag.dtype.size
                if not tag.dims:
                    one(tag, None, 1, companion)
                    continue
                counts = set()
                for target in range(S - w, S + w + 1):
                    if target % sz == 0 or sz > 8:
                        counts.add(max(1, target // sz))
                if frag == "tiny" and S > 1000:
                    counts = set(sorted(counts)[::4])
                for c in sorted(counts):
                    if c <= tag.elements:
                        one(tag, None if len(tag.dims) > 1 else 0, c, companion)
            # ---- coarse sizes 1 byte .. 3*S, random --------------------------------------------------------------------------------------
            tag = info["sint"][15]
            coarse = [1, 2, 3, 4, 7, 8, 100, S // 3, 2 * S // 3, S + S // 2, 2 * S - 8, 2 * S, 2 * S + 8, 3 * S - 10, 3 * S, 3 * S + 50] + [rng.randrange(1, 3 * S + 90) for _ in range(6 if quick else 40)]
            if frag == "tiny":
                coarse = [c for c in coarse if c <= 700]
            for L in coarse:
                one(tag, 0, L, companion)
            # ---- request mixes that fill multi-service packets to the brim ------------------------------------------------------------------
            if path == "multi":
                for rep in range(6 if quick else 30):
                    k = rng.choice([12, 20, 40, 80, 110, 130, 160])
                    pool = info["small"] + (info["small_str"] if rng.random() < 0.5 else [])
                    pick = [rng.choice(pool) for _ in range(k)]
                    nviol = len(log.violations)
                    res.ev()
                    res.seen("brim", op, k, S, fw, frag)
                    if op == "read":
                        st, out = sc.b.call("read", sc.drv.read, *[t.full_name for t in pick])
                    else:
                        vals = [(t.full_name, rng.randrange(1 << 16) if t.dtype.kind == "atomic" else "abc" * rng.randrange(7)) for t in pick]
                        st, out = sc.b.call("write", sc.drv.write, *vals)
                    bad = st != "ok" or not isinstance(out, list) or not all(out)
                    wit = {"op": op, "n_tags": k, "connection": S, "config": label}
                    if bad:
                        first = next((t for t in out if not t), out) if isinstance(out, list) else out
                        res.violation(f"brim-{op}-fails", f"{op} of {k} small tags in one call ({label}) -> {first!r:.200}", wit)
                    for pid, kk, what, wv in log.violations[nviol:]:
                        if pid == "C04":
                            res.violation(f"{kk}:{op}:brim", f"{what} [{op} of {k} small tags, {label}]", dict(wit, monitor=wv))
                    del log.violations[nviol:]
            res.count(f"fragments-read", log.counts.get("read-fragments", 0))
            res.count(f"fragments-write", log.counts.get("write-fragments", 0))
            res.count("multi-service-packets", log.counts.get("multi-service-packets", 0))
            if ci < 2:
                res.sample({"config": label, "op": op, "path": path, "fragments": frag, "window": [S - w, S + w], "connected_messages": log.counts.get("connected-messages", 0)})
            sc.close()
        except ScenarioDead:
            continue
    return res
