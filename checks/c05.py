"""C05 - uploaded tag list and type definitions mirror the controller."""
import json

from vlib.bench import ScenarioDead
from vlib import common
from vlib import refcodec as rc
from vlib import refproject as rpj
from vlib.logixbench import CONFIGS, LogixScenario

LEVEL = "exploration"
SHARDS = {"quick": 8, "thorough": 16}
TIMEOUT = {"quick": 900, "thorough": 3000}
MIN_EVALUATIONS = {"quick": 15000, "thorough": 15000}  # fewer oracle evaluations than this means the workload collapsed: inconclusive
RULE = ("random controller projects (user tags of every kind, 0-3 programs with routines and tags, tasks, Map:/Cxn:, double-underscore and "
        "system-bit symbols, module I/O tags, aliases, UDTs nested <=3 with packed BOOLs on hidden hosts, arrays of structs, string types "
        "of capacity 1..4100, template ids inside and outside 0x100-0xEFF incl. both ends of either range, predefined types with a hidden CTL / Control status word "
        "aliased by visible BOOL members and the bare-name template form, every fourth project a member array and a string capacity of 32767 / 32768 / 40000 / 65535 elements, "
        "every fourth a family of types nested 9 to 14 levels with a single tag, every fourth a structure that has a string's shape but not its LEN / DATA names; "
        "two thirds of the Program: / Routine: / Task: / Map: symbols carry the system-symbol types genuine controllers list (0x1068 / 0x106D / 0x1070 / 0x1069), "
        "a fifth of the module names end in Map / Cxn / _Task / Program; a redundant second open() in a quarter of the scenarios, three whole-tag reads between uploads in half and a get_plc_info() between "
        "uploads in 40 % change nothing; every fourth project holds a TIMER-shaped predefined type (70 % in the bare-name template form on firmware >= 32), "
        "12 % of the UDTs end in unnamed pad members; 2 % of the member names are words the library uses as keys of its own dicts (type_class, data_type, internal_tags ...) or begin with "
        "one underscore, 5 % of the tag names begin with one underscore; a single-program upload with cache=True leaves exactly that program's tags; half of the scenarios have one request of an upload refused by the controller "
        "(a later template fragment, a program's symbol page, a template's attributes): a library exception, or a success that passes the full comparison; 40 % of the "
        "rack scenarios upload everything with cache=False through a second driver opened with init_tags=False, and a program added after the last upload by name; after every upload tags_json equals tags minus the type classes) are uploaded through open() / get_tag_list(None | '*' | program) "
        "under target-chosen symbol pagination {1,2,3,random,all} and template fragmentation {1..8,random,all}, firmware {16..32}; the "
        "uploaded tags / data_types / info are compared field by field with the project model, get_tag_info(tag | tag[i].member.member[j]...) "
        "must return the same definitions, every uploaded type class must decode "
        "the tag's memory image to the reference value, the same project uploaded under 3 different schedules must give identical "
        "tags_json, and json.dumps(tags_json) must work. distinct = (symbol kind | type shape, page mode, fragment mode, firmware class)")
ASSUMPTIONS = [
    "documented keys only (docs/usage/logixdriver.rst 'Tag Structure' / 'Structure Definitions'); extra keys ignored; external_access judged for firmware >= 18 only",
    "templates of user-range types always carry a 'Name;n..' entry; predefined-range types (ids outside 0x100..0xEFF) of firmware >= 32 may give the bare "
    "type name as first string instead (pycomm3 issue #186 / code comment 'predefined types put name as first member')",
    "visible members = names not starting with ZZZZZZZZZZ or __; in predefined-range types (TIMER / COUNTER / CONTROL shape) the status word CTL / Control, "
    "whose bits the visible BOOL members alias, is an internal host too (not user-visible in a controller); a member of that name in a user-range type is ordinary",
]
ANCHORS = [
    ("pycomm3/logix_driver.py", "LogixDriver.get_tag_info"),
    ("pycomm3/logix_driver.py", "LogixDriver._get_instance_attribute_list_service"), ("pycomm3/logix_driver.py", "LogixDriver._parse_instance_attribute_list"),
    ("pycomm3/logix_driver.py", "LogixDriver._isolate_user_tags"), ("pycomm3/logix_driver.py", "LogixDriver._create_tag"),
    ("pycomm3/logix_driver.py", "LogixDriver._get_structure_makeup"), ("pycomm3/logix_driver.py", "LogixDriver._read_template"),
    ("pycomm3/logix_driver.py", "LogixDriver._parse_template_data"), ("pycomm3/logix_driver.py", "LogixDriver._parse_template_data_member_info"),
    ("pycomm3/custom_types.py", "StructTag"), ("pycomm3/custom_types.py", "FixedSizeString"), ("pycomm3/logix_driver.py", "LogixDriver.tags_json"),
]


def expected_type_def(t):
    """documented view of a structure definition"""
    d = {"name": t.name, "attributes": [m.name for m in t.visible_members()],
         "template": {"object_definition_size": t.definition_size(), "structure_size": t.size, "member_count": t.member_count(), "structure_handle": t.handle},
         "internal_tags": {}}
    if t.kind == "string":
        d["string"] = t.capacity
    for m in t.members:
        e = {"offset": m.offset}
        if m.is_bit:
            e.update(tag_type="atomic", data_type="BOOL", data_type_name="BOOL", bit=m.bit)
        elif m.dtype.kind == "atomic":
            e.update(tag_type="atomic", data_type=m.dtype.name, data_type_name=m.dtype.name, array=m.array_len)
        else:
            e.update(tag_type="struct", data_type=expected_type_def(m.dtype), data_type_name=m.dtype.name, array=m.array_len)
        d["internal_tags"][m.name] = e
    return d


def expected_tag(tag, fw):
    e = {"tag_name": tag.full_name, "instance_id": tag.instance_id, "dim": len(tag.dims), "dimensions": tag.dims3(), "alias": tag.alias}
    if fw >= 18:
        e["external_access"] = rpj.EXTERNAL_ACCESS[tag.access]
    if tag.dtype.is_struct:
        e.update(tag_type="struct", data_type=expected_type_def(tag.dtype), data_type_name=tag.dtype.name, template_instance_id=tag.dtype.template_id)
    else:
        e.update(tag_type="atomic", data_type=tag.dtype.name, data_type_name=tag.dtype.name)
    return e


def diff(want, got, path="", members=False):
    """first difference between the documented expectation and what the driver holds (extra keys in got are ignored).
    members: `want` is the member table of a definition (keys are MEMBER NAMES - a member may itself be called 'internal_tags')"""
    if isinstance(want, dict):
        if not isinstance(got, dict):
            return f"{path}: expected a dict, got {got!r:.80}"
        for k, v in want.items():
            if k not in got:
                return f"{path}.{k}: missing"
            d = diff(v, got[k], f"{path}.{k}", members=(k == "internal_tags" and not members))
            if d:
                return d
        if members and set(got) != set(want):
            return f"{path}: members {sorted(set(got) ^ set(want))[:6]} differ"
        return None
    if isinstance(want, list):
        if not isinstance(got, (list, tuple)) or list(got) != want:
            return f"{path}: {got!r:.120} != {want!r:.120}"
        return None
    if type(want) is not type(got) or want != got:
        return f"{path}: {got!r:.80} != {want!r:.80}"
    return None


def diff_key(d):
    p = d.split(":")[0]
    parts = [x for x in p.split(".") if x]
    keep = [x for x in parts if x in ("data_type", "internal_tags", "template", "attributes", "string", "offset", "bit", "array", "tag_type", "data_type_name", "name",
                                      "dim", "dimensions", "alias", "external_access", "instance_id", "tag_name", "template_instance_id", "object_definition_size",
                                      "structure_size", "member_count", "structure_handle")]
    return ".".join(keep[-2:]) or "field"


def check_upload(res, sc, drv, program_arg, keyp=""):
    prj = sc.prj
    with_programs = program_arg == "*"
    exp = {}
    if program_arg in (None, "*"):
        for t in prj.symbols:
            if t.kind in ("user", "alias", "module"):
                exp[t.full_name] = t
    if with_programs:
        for pn, p in prj.programs.items():
            for t in p["symbols"]:
                if t.kind in ("user", "alias"):
                    exp[t.full_name] = t
    elif program_arg not in (None, "*"):
        for t in prj.programs[program_arg]["symbols"]:
            if t.kind in ("user", "alias"):
                exp[t.full_name] = t
    got = drv.tags
    res.ev()
    wit = {"config": sc.label, "page_mode": sc.dev.page_mode, "tmpl_frag": sc.dev.tmpl_frag, "fw": sc.fw, "program_arg": program_arg}
    missing = sorted(set(exp) - set(got))
    extra = sorted(set(got) - set(exp))
    if missing:
        kinds = sorted({exp[m].kind for m in missing})
        res.violation(f"{keyp}tags-missing:{kinds[0]}", f"uploaded tag list lacks {missing[:5]!r} ({len(missing)} missing; page mode {sc.dev.page_mode}, {sc.label})", wit)
    if extra:
        def kind_of(n):
            for t in prj.symbols + [x for p in prj.programs.values() for x in p["symbols"]]:
                if t.full_name == n or t.name == n:
                    return t.kind
            return "invented"
        res.violation(f"{keyp}tags-extra:{kind_of(extra[0])}", f"uploaded tag list contains {extra[:5]!r} which are not user-visible tags of the requested scope ({sc.label})", wit)
    for name, t in exp.items():
        if name not in got:
            continue
        res.ev()
        res.seen("tag", t.kind, t.dtype.kind, len(t.dims), sc.dev.page_mode, sc.dev.tmpl_frag, sc.fw >= 18, bool(t.program))
        if t.dtype.is_struct and t.dtype.predefined:
            sw = any(t.dtype.is_hidden(m) and m.name in ("CTL", "Control") for m in t.dtype.members)
            res.seen("predefined-type", sw, t.dtype.bare_name, t.dtype.template_id in (0xF00, 0xF01, 0xFFF))
            if sw:
                res.count("tags-of-predefined-types-with-hidden-status-word")
        d = diff(expected_tag(t, sc.fw), got[name], "tag")
        if d:
            res.violation(f"{keyp}tag-field:{diff_key(d)}", f"tag {name!r} ({t.dtype.name}{list(t.dims) or ''}, {sc.label}, pages {sc.dev.page_mode}, template fragments {sc.dev.tmpl_frag}): {d}",
                          dict(wit, tag=name))
            continue
        # get_tag_info(): the documented accessor for the same definitions, by tag name and by member path
        if hasattr(drv, "get_tag_info") and sc.rng.random() < 0.5:
            idx = "[" + ",".join(str(sc.rng.randrange(n)) for n in t.dims) + "]" if t.dims and sc.rng.random() < 0.5 else ""
            path, want_def, dt = name + idx, expected_tag(t, sc.fw), t.dtype
            for _ in range(sc.rng.choice([0, 1, 1, 2, 3])):
                if not dt.is_struct or not dt.members:
                    break
                m = sc.rng.choice(dt.members)
                want_def = expected_type_def(dt)["internal_tags"][m.name]
                path += "." + m.name + (f"[{sc.rng.randrange(m.array_len)}]" if m.array_len and sc.rng.random() < 0.5 else "")
                if m.is_bit:
                    break
                dt = m.dtype
            st, info = sc.b.call("get_tag_info", drv.get_tag_info, path)
            res.ev()
            res.seen("get_tag_info", path.count("."), "[" in path, bool(t.program))
            d = f"raised {info!r:.120}" if st != "ok" else diff(want_def, info, "info")
            if d:
                res.violation(f"{keyp}get_tag_info:{'raises' if st != 'ok' else diff_key(d)}", f"get_tag_info({path!r}) ({sc.label}): {d}", dict(wit, tag=path))
        # the type class built from the upload must decode the controller's memory image of this tag
        tc = got[name].get("type_class")
        desc = t.dtype.desc()
        data = bytes(t.data)
        try:
            if t.dims:
                want = rc.decode(("array", t.elements, desc), data)[0]
                val = tc.decode(data)
            elif t.dtype.name == "BOOL":
                want, val = data[0] != 0, tc.decode(data)
            else:
                want = rc.decode(desc, data)[0]
                val = tc.decode(data)
            if t.dtype.kind == "struct" and not t.dims and isinstance(val, dict):
                pass
            okv = rc.values_equal(("array", t.elements, desc) if t.dims else desc, want, val)
        except Exception as e:  # noqa
            okv, val = False, e
        res.ev()
        if not okv:
            res.violation(f"{keyp}type-class-decodes-wrong:{t.dtype.kind}", f"type class uploaded for {name!r} ({t.dtype.name}) decodes the tag's memory to {val!r:.160}, controller layout gives {want!r:.160}",
                          dict(wit, tag=name))
    # data_types: every structure type reachable from an uploaded tag
    used = {}

    def reach(dt):
        if dt.is_struct and dt.name not in used:
            used[dt.name] = dt
            for m in dt.members:
                reach(m.dtype)
    for t in exp.values():
        reach(t.dtype)
    for nm, dt in used.items():
        res.ev()
        res.seen("type", dt.kind, len(dt.members), sum(m.is_bit for m in dt.members), sc.dev.tmpl_frag, dt.template_id >= 0xF00)
        if nm not in drv.data_types:
            res.violation(f"{keyp}data-type-missing", f"data_types lacks {nm!r} ({sc.label}, template fragments {sc.dev.tmpl_frag})", wit)
            continue
        d = diff(expected_type_def(dt), drv.data_types[nm], "type")
        if d:
            res.violation(f"{keyp}type-field:{diff_key(d)}", f"data type {nm!r} ({sc.label}, template fragments {sc.dev.tmpl_frag}): {d}", dict(wit, type=nm))
    # nothing invented: every definition the driver holds is a type of THIS controller
    invented = sorted(set(drv.data_types) - set(prj.types))
    if invented:
        res.violation(f"{keyp}data-types-invented", f"data_types holds {invented[:5]!r}, which this controller ({sc.label}) does not define", wit)
    # programs / tasks
    if program_arg in (None, "*"):
        res.ev()
        want_prog = {pn: {"instance_id": p["instance_id"], "routines": (p["routines"] if with_programs else [])} for pn, p in prj.programs.items()}
        gp = drv.info.get("programs")
        if not isinstance(gp, dict) or set(gp) != set(want_prog) or any(gp[k].get("instance_id") != v["instance_id"] for k, v in want_prog.items()):
            res.violation(f"{keyp}info-programs", f"info['programs'] = {gp!r:.200}, controller has {want_prog!r:.200}", wit)
        elif with_programs and any(sorted(gp[k].get("routines", [])) != sorted(v["routines"]) for k, v in want_prog.items()):
            res.violation(f"{keyp}info-routines", f"info['programs'] routines {gp!r:.200} != {want_prog!r:.200}", wit)
        want_tasks = {k: {"instance_id": v} for k, v in prj.tasks.items()}
        gt = drv.info.get("tasks")
        if gt != want_tasks:
            res.violation(f"{keyp}info-tasks", f"info['tasks'] = {gt!r:.200}, controller has {want_tasks!r:.200}", wit)
    # JSON view
    res.ev()
    try:
        tj = drv.tags_json
        js = json.dumps(tj, sort_keys=True)
    except Exception as e:  # noqa
        res.violation(f"{keyp}tags_json-not-serialisable", f"json.dumps(tags_json) raised {e!r:.200} ({sc.label})", wit)
        return None
    # tags_json is `tags` without the type classes - the CURRENT tags, also after a re-upload that changed a definition (the tag list
    # above was compared with the controller field by field; the JSON view must say the same)

    def plain_info(d):   # a tag, or the entry of a structure member: its own keys minus the type classes
        new = {k: v for k, v in d.items() if k not in ("type_class", "_struct_members")}
        if isinstance(d.get("data_type"), dict):
            new["data_type"] = plain_type(d["data_type"])
        return new

    def plain_type(dt):  # a structure definition; `internal_tags` is keyed by MEMBER NAME (a member may be called type_class)
        new = {k: v for k, v in dt.items() if k not in ("type_class", "_struct_members")}
        if isinstance(dt.get("internal_tags"), dict):
            new["internal_tags"] = {name: plain_info(m) for name, m in dt["internal_tags"].items()}
        return new
    res.ev()
    want_tj = {name: plain_info(t_) for name, t_ in drv.tags.items()}
    if tj != want_tj:
        bad = sorted(k for k in set(tj) | set(want_tj) if tj.get(k) != want_tj.get(k))
        res.violation(f"{keyp}tags_json-differs-from-tags", f"tags_json disagrees with tags for {bad[:3]!r} ({len(bad)} tags; {sc.label}): e.g. {str(tj.get(bad[0]))[:120]} vs {str(want_tj.get(bad[0]))[:120]}", wit)
    return js


class Enough(Exception):
    """the same non-termination has been witnessed several times (each witness costs a whole step budget): the verdict is in"""


def pycomm3_errors():
    import pycomm3
    return pycomm3.PycommError


def note_budget(res, st):
    if st == "budget":
        res.count("uploads-that-did-not-terminate")
        if res.counters.get("uploads-that-did-not-terminate", 0) >= 3:
            res.count("stopped-early-after-repeated-nontermination")
            raise Enough()


def run(ctx):
    res = common.Result("C05")
    rng = ctx.rng()
    quick = ctx.quick
    nproj = 28 if quick else 300
    for pi in range(nproj):  # WRAPPED
        try:
            cfg = CONFIGS[(pi * ctx.nshards + ctx.shard) % len(CONFIGS)]
            size = rng.choice(["small", "medium", "medium", "large", "fixture"])
            ipt = rng.random() < 0.75
            project_ = None
            if size != "fixture" and pi % 4 == 1:
                # sizes at which a 16-bit field changes sign or is full: a member array and a string capacity of 32767 / 32768 / 40000 /
                # 65535 elements (the template's array-length word is unsigned)
                project_ = rpj.generate_project(rng, size, fw=cfg[1], micro800=cfg[2])
                n_ = rng.choice([32767, 32768, 40000, 65535])
                rpj.add_struct_tag(project_, rng, "BigArr_q", [("n", "DINT", 0), ("data", rng.choice(["SINT", "INT"]), n_), ("tail", "REAL", 0)], "bigarr_q")
                rpj.add_string_tag(project_, rng, "BigStr_q", rng.choice([32767, 32768, 40000, 65535]), "bigstr_q")
                res.count("projects-with-16-bit-boundary-sizes")
            if size != "fixture" and pi % 4 == 0:
                # a TIMER-shaped predefined type in every fourth project (the generator's own 10 % / 3 % odds leave some seeds with a
                # single one): hidden status word, template id >= 0xF00, bare-name template form on firmware >= 32
                project_ = rpj.generate_project(rng, size, fw=cfg[1], micro800=cfg[2])
                rpj.add_predefined_tag(project_, rng, rng.choice(["TIMER", "TON_q", "Tmr" + str(pi)]), "tmr_q", bare=rng.random() < 0.7)
                res.count("projects-with-a-timer-shaped-predefined-type")
            if size != "fixture" and pi % 4 == 2:
                # "UDTs nested to any depth": one family nested 9 to 14 levels with a single tag of the outermost type, so the whole chain
                # is unresolved when the driver meets it (the generator's ordinary projects stop at 4 levels)
                project_ = rpj.generate_project(rng, size, fw=cfg[1], micro800=cfg[2])
                dp_ = rng.randint(9, 14)
                rpj.add_deep_tag(project_, rng, dp_, "deep_q")
                res.count("projects-with-9-to-14-levels-of-nesting")
            if size != "fixture" and pi % 4 == 3:
                # a string is a LEN/DATA structure, by those names: a UDT that merely has the same shape (a DINT and a SINT array under
                # other names, or LEN/DATA in the other order) is an ordinary structure
                project_ = rpj.generate_project(rng, size, fw=cfg[1], micro800=cfg[2])
                f_ = rng.choice([[("count", "DINT", 0), ("raw", "SINT", rng.choice([4, 16, 82]))], [("Len", "DINT", 0), ("Data", "SINT", 12)],
                                 [("LEN", "DINT", 0), ("DATA", "INT", 8)]])
                rpj.add_struct_tag(project_, rng, "Lookalike_q", f_, "lookalike_q")
                res.count("projects-with-a-string-lookalike-structure")
            sc = LogixScenario(rng, size=size, config=cfg, init_program_tags=ipt, project=project_)
            res.count("uploads")
            res.count(f"page:{sc.dev.page_mode}")
            res.count(f"tmpl:{sc.dev.tmpl_frag}")
            if not sc.ok():
                res.ev()
                res.violation("open-failed", f"LogixDriver.open() against a conforming controller ({sc.label}, pages {sc.dev.page_mode}, template fragments {sc.dev.tmpl_frag}) -> {sc.opened!r:.300}",
                              {"config": sc.label, "log": [v[:3] for v in sc.b.log.violations[:3]]})
                stuck_ = sc.opened is not None and sc.opened[0] == "budget"
                try:
                    sc.close()
                except ScenarioDead:   # (the bench of a call that blew its budget is dead: closing it raises)
                    pass
                if stuck_:
                    note_budget(res, "budget")
                continue
            js0 = check_upload(res, sc, sc.drv, "*" if ipt else None)
            # ---- two controllers in one process: a second driver uploads ANOTHER controller's project (types of the same names laid out
            # differently); each driver's tags / data_types keep mirroring its own controller
            if pi % 5 == 3 and not sc.micro:
                cfgB = rng.choice([c for c in CONFIGS if not c[2] and c[0] != cfg[0]])
                prjB = rpj.generate_project(rng, "small", fw=cfgB[1], micro800=False)
                for tn_ in [n_ for n_, t_ in sc.prj.types.items() if t_.kind == "struct"][:2]:   # same type names, other members
                    if tn_ not in prjB.types:
                        rpj.add_struct_tag(prjB, rng, tn_, [("other_a", "REAL", 0), ("other_b", "INT", 3)], f"uses_{len(prjB.symbols)}_q")
                scB = LogixScenario(rng, config=cfgB, project=prjB, bench=sc.b, host="192.168.1.237")
                res.count("two-controller-scenarios")
                if not scB.ok():
                    res.ev()
                    res.violation("two-plc:open-failed", f"a second LogixDriver for another controller ({scB.label}) failed to open while the first ({sc.label}) is open: {scB.opened!r:.200}", None)
                else:
                    check_upload(res, scB, scB.drv, "*", keyp="two-plc:second:")
                    check_upload(res, sc, sc.drv, "*" if ipt else None, keyp="two-plc:first:")
                scB.close()
            if pi < 2:
                res.sample({"config": sc.label, "page_mode": sc.dev.page_mode, "template_fragments": sc.dev.tmpl_frag, "uploaded_tags": sorted(sc.drv.tags)[:6],
                            "symbols_in_controller": len(sc.prj.symbols), "programs": list(sc.prj.programs)})
            # ---- the result must not depend on pagination / template fragmentation --------------------------------------
            for rep in range(2):
                sc.dev.page_mode = rng.choice(["all", 1, 2, 3, "random"])
                sc.dev.tmpl_frag = rng.choice(["all", "random", 1, 2, 3, 5, 8])
                st, out = sc.b.call("get_tag_list", sc.drv.get_tag_list, "*" if ipt else None)
                note_budget(res, st)
                res.count("uploads")
                if st != "ok":
                    res.ev()
                    res.violation("get_tag_list-raises", f"get_tag_list() raised {out!r:.200} (pages {sc.dev.page_mode}, template fragments {sc.dev.tmpl_frag}, {sc.label})", {"config": sc.label})
                    continue
                js = check_upload(res, sc, sc.drv, "*" if ipt else None, keyp="re-upload:")
                res.ev()
                if js0 is not None and js is not None and js != js0:
                    res.violation("schedule-dependent-upload", f"tags_json differs between two uploads of the same project (pages {sc.dev.page_mode}, template fragments {sc.dev.tmpl_frag})", {"config": sc.label})
                if isinstance(out, list):
                    names = [t.get("tag_name") for t in out]
                    if len(names) != len(set(names)):
                        res.violation("duplicate-tags", f"get_tag_list returned duplicates: {sorted(n for n in names if names.count(n) > 1)[:4]}", {"config": sc.label})
            # ---- the program is edited and downloaded again: a later upload on the same driver must show the new definitions
            if rng.random() < 0.6:
                changed = rpj.redefine_type(sc.prj, rng)
                if changed is not None:
                    how = rng.choice(["get_tag_list", "reopen"])
                    if how == "reopen":
                        sc.b.call("close", sc.drv.close)
                        st, out = sc.b.call("open", sc.drv.open)
                        note_budget(res, st)
                    else:
                        st, out = sc.b.call("get_tag_list", sc.drv.get_tag_list, "*" if ipt else None)
                        note_budget(res, st)
                    res.count(f"re-upload-after-edit:{how}")
                    if st != "ok":
                        res.ev()
                        res.violation("re-upload-after-edit-raises", f"{how} after a type was redefined raised {out!r:.200} ({sc.label})", {"config": sc.label})
                    else:
                        js0 = check_upload(res, sc, sc.drv, "*" if ipt else None, keyp="after-edit:")
            # ---- scoped uploads -------------------------------------------------------------------------------------------
            if rng.random() < 0.5:
                # using the driver does not rewrite what it uploaded: after a few reads (whole tags, by symbol instance where the
                # firmware allows) `tags` / `tags_json` still mirror the controller and still serialise
                names_ = [t.full_name for t in sc.prj.user_tags() if t.kind == "user" and len(t.data) <= 400]
                for nm_ in rng.sample(names_, min(3, len(names_))):
                    sc.b.call("read", sc.drv.read, nm_)
                sc.dev.finish_transfers()
                res.count("reads-between-uploads")
                check_upload(res, sc, sc.drv, "*" if ipt else None, keyp="after-reads:")
            if rng.random() < 0.4:
                # the information helpers are queries: asking the controller who it is (again) takes nothing away from what the driver
                # has uploaded - tags, data types, the program / task lists and with them the scoped uploads below
                st, out = sc.b.call("get_plc_info", sc.drv.get_plc_info)
                res.count("get_plc_info-between-uploads")
                res.ev()
                if st != "ok" or not isinstance(out, dict):
                    res.violation("get_plc_info-raises", f"get_plc_info() on an open driver -> {out!r:.200} ({sc.label})", {"config": sc.label})
                else:
                    check_upload(res, sc, sc.drv, "*" if ipt else None, keyp="after-get_plc_info:")
            if sc.prj.programs and not sc.micro:
                pn = rng.choice(sorted(sc.prj.programs))
                full = sc.drv.tags
                st, out = sc.b.call("get_tag_list", sc.drv.get_tag_list, pn, False)
                note_budget(res, st)
                res.ev()
                if st != "ok":
                    res.violation("get_tag_list-raises", f"get_tag_list({pn!r}, cache=False) raised {out!r:.200}", {"config": sc.label})
                else:
                    want = sorted(t.full_name for t in sc.prj.programs[pn]["symbols"] if t.kind in ("user", "alias"))
                    gotn = sorted(t.get("tag_name") for t in out)
                    if gotn != want:
                        res.violation("program-scope-list", f"get_tag_list({pn!r}) -> {gotn!r:.200}, program holds {want!r:.200}", {"config": sc.label})
                    if sc.drv.tags is not full and sc.drv.tags != full:
                        res.violation("cache-false-overwrites", "get_tag_list(cache=False) replaced the cached tag list", {"config": sc.label})
                    # the same upload with cache=True (the default): "after get_tag_list, tags contains exactly" the tags of the scope asked
                    # for - what an earlier upload of other scopes left in the driver is gone
                    st2, out2 = sc.b.call("get_tag_list", sc.drv.get_tag_list, pn)
                    note_budget(res, st2)
                    res.ev()
                    if st2 != "ok":
                        res.violation("get_tag_list-raises", f"get_tag_list({pn!r}) raised {out2!r:.200}", {"config": sc.label})
                    elif sorted(sc.drv.tags) != want:
                        extra_ = sorted(set(sc.drv.tags) - set(want))
                        res.violation("program-scope-cache", f"after get_tag_list({pn!r}) tags holds {len(sc.drv.tags)} entries, the program has {len(want)}; not of this program: {extra_[:4]!r}", {"config": sc.label})
                    st2, out2 = sc.b.call("get_tag_list", sc.drv.get_tag_list, "*" if ipt else None)
                    note_budget(res, st2)
            if rng.random() < 0.5:
                # a request of the upload is refused by the controller (a later fragment of a template read, a page of a program's
                # symbol list, a template's attributes): the upload fails with a library exception - or, if it reports success, it has
                # uploaded everything.  A refusal may not turn into a shorter list.
                where_ = rng.choice(["template-fragment", "template-fragment", "program-page", "template-attributes"])
                stt_ = rng.choice([0x02, 0x05, 0x0F, 0x08, 0x1F])
                seen_ = {"n": 0}

                def refuse(rq, where_=where_, stt_=stt_, seen_=seen_):
                    cls_ = rq.logical("class")
                    hit = (where_ == "template-fragment" and cls_ == 0x6C and rq.service == 0x4C) or \
                          (where_ == "template-attributes" and cls_ == 0x6C and rq.service == 0x03) or \
                          (where_ == "program-page" and rq.service == 0x55 and any(s_[0] != "logical" for s_ in rq.segs))
                    if not hit or seen_.get("fired"):
                        return None
                    if where_ == "template-fragment":
                        # a LATER fragment of some template (offset > 0) - early ones, late ones, the last one: wherever the definition
                        # is cut, in the member records or in the name block, the upload may not pass for complete
                        if int.from_bytes(bytes(rq.data[:4]), "little") == 0 or rng.random() < 0.6:
                            return None
                    seen_["n"] += 1
                    seen_["fired"] = True
                    return (stt_, (), b"")
                sc.dev.tmpl_frag = rng.choice([5, 16, 24, 40, 64, "random", "random"])   # bytes per reply: a handful of fragments per template
                sc.dev.force_status = refuse
                st, out = sc.b.call("get_tag_list", sc.drv.get_tag_list, "*" if ipt else None)
                sc.dev.force_status = None
                sc.dev.finish_transfers()
                sc.b.log.violations.clear()
                note_budget(res, st)
                res.ev()
                fired_ = bool(seen_.get("fired"))
                res.seen("refused-upload-request", where_, stt_, fired_, st)
                if fired_:
                    if st == "exc" and not isinstance(out, pycomm3_errors()):
                        res.violation(f"refused-upload:foreign-exception:{type(out).__name__}", f"get_tag_list() with a {where_} request refused ({stt_:#x}) raised {out!r:.200}", {"config": sc.label})
                    elif st == "ok":
                        check_upload(res, sc, sc.drv, "*" if ipt else None, keyp=f"refused-{where_}-reported-as-success:")
                # whatever happened: a fresh upload from the now willing controller is complete again
                st, out = sc.b.call("get_tag_list", sc.drv.get_tag_list, "*" if ipt else None)
                note_budget(res, st)
                if st == "ok":
                    check_upload(res, sc, sc.drv, "*" if ipt else None, keyp="after-refused-upload:")
                else:
                    res.ev()
                    res.violation("get_tag_list-raises", f"get_tag_list() after an earlier refused upload raised {out!r:.200} ({sc.label})", {"config": sc.label})
            if not sc.micro and rng.random() < 0.4:
                # rarely used forms of get_tag_list: (a) a driver opened without uploading (init_tags=False) asks for the whole list
                # without caching it; (b) a program that was added to the controller after this driver's last upload, asked for by name
                import pycomm3
                d2 = pycomm3.LogixDriver(sc.path, init_tags=False)
                st, out = sc.b.call("open", d2.open)
                if st == "ok" and out:
                    st, out = sc.b.call("get_tag_list", d2.get_tag_list, "*" if ipt else None, False)
                    note_budget(res, st)
                    res.ev()
                    res.count("uploads-without-cache-on-a-driver-that-never-uploaded")
                    if st != "ok" or not isinstance(out, list):
                        res.violation("get_tag_list-raises", f"get_tag_list({'*' if ipt else None!r}, cache=False) on a driver opened with init_tags=False -> {out!r:.200} ({sc.label})", {"config": sc.label})
                    elif sorted(t_.get("tag_name") for t_ in out) != sorted(sc.drv.tags):
                        res.violation("uncached-upload-differs", f"get_tag_list(cache=False) on a second driver returned {len(out)} tags, the first driver's verified list has {len(sc.drv.tags)}", {"config": sc.label})
                    sc.b.call("close", d2.close)
                pb_ = rpj._builder_for(sc.prj, rng)
                if "LateProg_q" not in sc.prj.programs:
                    pb_.tag("late_q", "DINT", program="LateProg_q")
                    rt_ = rpj.Tag("Routine:MainRoutine", rpj.ATOM_TYPES["DINT"], (), instance_id=pb_.instance(), program="LateProg_q", kind="routine")
                    sc.prj.programs["LateProg_q"]["symbols"].append(rt_)
                    sc.prj.programs["LateProg_q"]["symbols"].sort(key=lambda x: x.instance_id)
                    sc.prj.programs["LateProg_q"]["routines"].append("MainRoutine")
                    st, out = sc.b.call("get_tag_list", sc.drv.get_tag_list, "LateProg_q", False)
                    note_budget(res, st)
                    res.ev()
                    res.count("uploads-of-a-program-added-after-the-last-upload")
                    if st != "ok" or not isinstance(out, list) or sorted(t_.get("tag_name") for t_ in out) != ["Program:LateProg_q.late_q"]:
                        res.violation("late-program-upload", f"get_tag_list('LateProg_q', cache=False) for a program added after the last upload -> {out!r:.200} ({sc.label})", {"config": sc.label})
            sc.close()
        except ScenarioDead:
            continue
        except Enough:
            return res
    return res
