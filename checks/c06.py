"""C06 - data-type codecs round-trip every value; stream decoding consumes exactly the encoding;
dict and positional struct encodings agree.  (Pure round trip: the reference codec is used only for
descriptors, value generation and equality at stored precision, never for expected bytes.)"""
from io import BytesIO

from vlib import common
from vlib import refcodec as rc
from vlib import typegrammar as tg
from checks.c07 import lib_decode, lib_encode, shape

LEVEL = "exploration"
SHARDS = {"quick": 4, "thorough": 16}
TIMEOUT = {"quick": 600, "thorough": 1800}
MIN_EVALUATIONS = {"quick": 150000, "thorough": 150000}  # fewer oracle evaluations than this means the workload collapsed: inconclusive
RULE = ("T.decode(T.encode(v)) == v for: all values of every exported 1/2-byte type (exhaustive), boundary/walking-bit/"
        "special-float/random values of wider types, strings of length 0..300 and at prefix limits, and generated "
        "Array(int|type|None)/Struct/StructTag/FixedSizeString/n_bytes/IPAddress/Revision compositions to depth 3, plus "
        "ModuleIdentityObject, DATE_AND_TIME, STRINGN, STRINGI; each decode runs on a stream with trailing junk and must stop "
        "exactly at the end of the encoding, and the same bytes handed to decode() as a bytes buffer must give the same value (STRINGI with ISO 639-2 "
        "languages and character-set numbers inside and outside the library's tables); struct dict-vs-sequence encodings compared; every decoded list / dict is then scrambled in place "
        "and the same bytes are decoded again (the result belongs to the caller: no shared or cached objects). distinct = (type shape, value bucket)")
ASSUMPTIONS = [
    "domains: ints in range, floats at stored precision (NaN==NaN), strings of characters representable in one code unit of the declared width, bit strings of exact length",
    "derived-length arrays: decode(len_type.encode(n) + encode(values)) == values (docs: encode omits the length)",
    "n_bytes(-1) and T[None] consume the rest of the buffer by design: decoded without trailing junk; the empty value of n_bytes(-1) is not generated (decode of nothing is BufferEmptyError, C08)",
    "over-long inputs to fixed arrays are truncated (docs); over-long bit lists for bit-string arrays are not generated (undocumented)",
]
ANCHORS = [
    ("pycomm3/cip/data_types.py", "DataType.encode"), ("pycomm3/cip/data_types.py", "DataType.decode"),
    ("pycomm3/cip/data_types.py", "_as_stream"), ("pycomm3/cip/data_types.py", "ElementaryDataType._decode"),
    ("pycomm3/cip/data_types.py", "StringDataType._decode"), ("pycomm3/cip/data_types.py", "STRINGN.encode"),
    ("pycomm3/cip/data_types.py", "STRINGN._decode"), ("pycomm3/cip/data_types.py", "STRINGI.encode"),
    ("pycomm3/cip/data_types.py", "STRINGI.decode"), ("pycomm3/cip/data_types.py", "BitArrayType._decode"),
    ("pycomm3/cip/data_types.py", "Array.encode"), ("pycomm3/cip/data_types.py", "Array.decode"),
    ("pycomm3/cip/data_types.py", "Array._decode_all"), ("pycomm3/cip/data_types.py", "Struct._encode"),
    ("pycomm3/cip/data_types.py", "Struct._decode"), ("pycomm3/custom_types.py", "StructTag._decode"),
    ("pycomm3/custom_types.py", "ModuleIdentityObject._decode"), ("pycomm3/custom_types.py", "ModuleIdentityObject._encode"),
    ("pycomm3/cip/data_types.py", "DATE_AND_TIME.encode"),
]
JUNK = b"\xa5\x5a\xc3\x3c\x96"


def kkey(case):
    if case.depth == 0 and case.desc[0] not in ("struct", "udt", "fixstr", "bytes"):
        return case.label
    return case.desc[0]


def roundtrip(res, case, v, bucket=None):
    desc = case.desc
    st, enc = lib_encode(case.lib, v)
    res.ev()
    if st != "ok" or not isinstance(enc, (bytes, bytearray)):
        res.violation(f"encode-fails:{kkey(case)}", f"{case.label}.encode({v!r:.140}) -> {enc!r:.200} for an in-domain value",
                      {"type": case.label, "value": v})
        return None
    enc = bytes(enc)
    want = tg.truncate_expected(desc, v)
    if case.kind == "larray":
        n = len(v) // (8 * desc[2][1]) if desc[2][0] == "bits" else len(v)
        prefix = rc.encode(desc[1], n)
        data, expect_tell = prefix + enc + JUNK, len(prefix) + len(enc)
    elif tg.consumes_rest(desc):
        data, expect_tell = enc, len(enc)
    else:
        data, expect_tell = enc + JUNK, len(enc)
    st, got, tell = lib_decode(case.lib, data)
    if len(enc):
        res.seen(case.label if case.depth == 0 else shape(desc), bucket if bucket is not None else common.short_hash(enc)[:3])
    if st != "ok":
        res.violation(f"decode-fails:{kkey(case)}", f"{case.label}.decode(encode({v!r:.120})) raised {got!r:.200}",
                      {"type": case.label, "value": v, "encoded": enc})
        return enc
    if not rc.values_equal(desc, want, got):
        res.violation(f"roundtrip:{kkey(case)}", f"{case.label}: decode(encode({v!r:.120})) = {got!r:.160}, expected {want!r:.160}",
                      {"type": case.label, "value": v, "encoded": enc, "decoded": got})
        return enc
    if tell != expect_tell:
        res.violation(f"consumed:{kkey(case)}", f"{case.label}: decode consumed {tell} bytes of a {expect_tell}-byte encoding (+{len(data) - expect_tell} junk)",
                      {"type": case.label, "value": v, "encoded": enc})
    # decode() takes a bytes buffer as well as a stream (the documented way to decode a value one holds): same value
    try:
        got_b = case.lib.decode(bytes(data))
    except Exception as e:  # noqa
        got_b = e
    res.ev()
    if isinstance(got_b, Exception) or not rc.values_equal(desc, want, got_b):
        res.violation(f"decode-from-bytes-differs:{kkey(case)}", f"{case.label}.decode(<bytes>) = {got_b!r:.160}; the same bytes decoded from a stream give {got!r:.120}",
                      {"type": case.label, "value": v, "encoded": enc})
    # The decoded value belongs to the caller: whatever the caller does to it (read-modify-write of a bit list, clearing a
    # dict) may not change what a later decode of the same bytes returns - "decoding the encoding returns the value" every time.
    if isinstance(got, (list, dict)) and got:
        scramble(got)
        st2, got2, _ = lib_decode(case.lib, data)
        res.ev()
        if st2 != "ok" or not rc.values_equal(desc, want, got2):
            res.violation(f"decoded-value-shared:{kkey(case)}",
                          f"{case.label}: after the caller modified the list/dict returned by decode, decoding the same bytes again gives {got2!r:.140}, expected {want!r:.140}",
                          {"type": case.label, "value": v, "encoded": enc})
    return enc


def scramble(x):
    """destructively modify a decoded container in place (all nested containers first)"""
    items = list(x.values()) if isinstance(x, dict) else list(x)
    for it in items:
        if isinstance(it, (list, dict)):
            scramble(it)
    if isinstance(x, dict):
        for k in list(x):
            x[k] = "scrambled"
        x.clear()
    else:
        for i in range(len(x)):
            x[i] = (not x[i]) if isinstance(x[i], bool) else "scrambled"
        x.reverse()
        del x[len(x) // 2:]


def run(ctx):
    res = common.Result("C06")
    rc.EMPTY_REST_IS_ERROR = True   # see refcodec: an empty "all remaining bytes" value is outside the judged domain
    import pycomm3 as p
    rng = ctx.rng()
    quick = ctx.quick
    elems = tg.elementary_cases(p)
    work = 0

    # exhaustive / sampled elementary values
    for case in elems:
        d = case.desc
        work += 1
        if not ctx.mine(work):
            continue
        sz = rc.size_of(d)
        if sz in (1, 2):
            for n in range(256 ** sz):
                v, _ = rc.decode(d, n.to_bytes(sz, "little"))
                roundtrip(res, case, v, bucket=n >> (8 * sz - 8) if sz == 2 else n >> 4)
        elif sz in (4, 8):
            pats = {0, (1 << 8 * sz) - 1}
            for i in range(8 * sz):
                pats |= {1 << i, (1 << i) - 1, (1 << 8 * sz) - 1 - (1 << i)}
            if d[0] == "real":
                pats |= set(tg.FLOAT32_BITS if sz == 4 else tg.FLOAT64_BITS)
            for _ in range(2000 if quick else 50000):
                pats.add(rng.getrandbits(8 * sz))
            for n in sorted(pats):
                v, _ = rc.decode(d, n.to_bytes(sz, "little"))
                roundtrip(res, case, v, bucket=n & 0xFF)
            if d[0] == "real":
                for v in [0, 1, -7, 123.45, 1 / 3, 16777217, 1e-45, -0.0]:
                    roundtrip(res, case, v, bucket="py")
        elif d[0] == "str":
            mx = rc.int_range(d[1], False)[1]
            for n in list(range(0, 101 if quick else 301)) + [254, 255, 256, 257, 1000, 4000, 65534, 65535, 65536, 70000]:
                if n <= mx:
                    roundtrip(res, case, tg.rand_str(rng, n, d[2]), bucket=f"len{min(n, 300)}")

    # special constructors -------------------------------------------------------------------------
    work += 1
    if ctx.mine(work):
        from pycomm3 import DATE_AND_TIME, STRINGI, STRINGN, ModuleIdentityObject
        from pycomm3.cip import PRODUCT_TYPES, VENDORS
        for _ in range(300 if quick else 3000):
            t, dte = tg.gen_value(tg.U32, rng), tg.gen_value(tg.U16, rng)
            res.ev()
            res.seen("DATE_AND_TIME", t & 0xFF)
            try:
                enc = DATE_AND_TIME.encode(t, dte)
                st = BytesIO(enc + JUNK)
                got = DATE_AND_TIME.decode(st)
                if tuple(got) != (t, dte) or st.tell() != len(enc):
                    res.violation("roundtrip:DATE_AND_TIME", f"DATE_AND_TIME {t},{dte} -> {enc.hex()} -> {got!r} tell={st.tell()}", None)
            except Exception as e:  # noqa
                res.violation("roundtrip:DATE_AND_TIME", f"DATE_AND_TIME({t},{dte}) raised {e!r}", None)
        for w in (1, 2, 4):
            for n in list(range(0, 40)) + [255, 256, 1000, 65535]:
                s = tg.rand_str(rng, n, min(w, 2), ascii_only=(w == 1)) if w < 4 else "".join(
                    chr(rng.choice([rng.randrange(0x20, 0xD800), rng.randrange(0xE000, 0x110000)])) for _ in range(n))
                res.ev()
                res.seen("STRINGN", w, min(n, 50))
                try:
                    enc = STRINGN.encode(s, w)
                    st = BytesIO(enc + JUNK)
                    got = STRINGN.decode(st)
                    if got != s or st.tell() != len(enc):
                        res.violation("roundtrip:STRINGN", f"STRINGN char_size={w} len={n}: got {got!r:.80} tell={st.tell()} of {len(enc)}",
                                      {"value": s, "char_size": w})
                except Exception as e:  # noqa
                    res.violation("roundtrip:STRINGN", f"STRINGN.encode/decode(len={n}, char_size={w}) raised {e!r:.200}", {"value": s})
        stypes = [(p.STRING, 1), (p.STRING2, 2), (p.SHORT_STRING, 1), (p.STRINGN, 0)]
        # the language is an ISO 639-2/T three-letter code and the character set an IANA MIBenum (UINT): the library's two tables name the
        # common ones, they are not the domain (a device may hold Dutch or Korean text, or UTF-8 = 106)
        langs = list(STRINGI.LANGUAGE_CODES.values()) + ["nld", "pol", "swe", "kor", "ara", "tur", "ces", "und", "mul", "zxx"]
        csets = list(STRINGI.CHARACTER_SETS.values()) + [3, 106, 2026, 0, 65535]
        for _ in range(300 if quick else 3000):
            k = rng.choice([0, 1, 1, 2, 3, 5])
            items = []
            for _i in range(k):
                T, cw = rng.choice(stypes)
                s = tg.rand_str(rng, rng.choice([0, 1, 5, 30]), cw or 1, ascii_only=(cw == 0))
                items.append((s, T, rng.choice(langs), rng.choice(csets)))
            res.ev()
            res.seen("STRINGI", k, tuple(t[1].__name__ for t in items))
            try:
                enc = STRINGI.encode(*items)
                st = BytesIO(enc + JUNK)
                got = STRINGI.decode(st)
                want = ([i[0] for i in items], [i[2] for i in items], [i[3] for i in items])
                if tuple(list(x) for x in got) != tuple(want) or st.tell() != len(enc):
                    res.violation("roundtrip:STRINGI", f"STRINGI {items!r:.200} -> {got!r:.200} tell={st.tell()}/{len(enc)}", None)
                got_b = STRINGI.decode(enc)    # from a bytes buffer, as a caller holding reply data would
                res.ev()
                if tuple(list(x) for x in got_b) != tuple(want):
                    res.violation("decode-from-bytes-differs:STRINGI", f"STRINGI.decode(<bytes>) of {items!r:.160} -> {got_b!r:.200}", None)
            except Exception as e:  # noqa
                res.violation("roundtrip:STRINGI", f"STRINGI {items!r:.200} raised {e!r:.200}", None)
        vend_names = sorted(k for k in VENDORS if isinstance(k, str))
        pt_names = sorted(k for k in PRODUCT_TYPES if isinstance(k, str))
        for _ in range(400 if quick else 4000):
            ident = {
                "vendor": rng.choice(vend_names), "product_type": rng.choice(pt_names),
                "product_code": tg.gen_value(tg.U16, rng),
                "revision": {"major": rng.randrange(256), "minor": rng.randrange(256)},
                "status": bytes([rng.randrange(256), rng.randrange(256)]),
                "serial": f"{tg.gen_value(tg.U32, rng):08x}",
                "product_name": tg.rand_str(rng, rng.choice([0, 1, 10, 32, 255]), 1),
            }
            res.ev()
            res.seen("ModuleIdentityObject", ident["vendor"][:6], ident["serial"][:2])
            try:
                enc = ModuleIdentityObject.encode(ident)
                st = BytesIO(enc + JUNK)
                got = ModuleIdentityObject.decode(st)
                # a name shared by several ids decodes to the name of the id it was encoded with
                if got != ident or st.tell() != len(enc):
                    if not (isinstance(got, dict) and {k: v for k, v in got.items() if k not in ("vendor", "product_type")} ==
                            {k: v for k, v in ident.items() if k not in ("vendor", "product_type")} and st.tell() == len(enc)
                            and VENDORS.get(got.get("vendor")) is not None):
                        res.violation("roundtrip:ModuleIdentityObject", f"{ident!r:.300} -> {got!r:.300} tell={st.tell()}/{len(enc)}", ident)
                    elif got["vendor"] != ident["vendor"] or got["product_type"] != ident["product_type"]:
                        if VENDORS[VENDORS[ident["vendor"]]] != got["vendor"] or PRODUCT_TYPES[PRODUCT_TYPES[ident["product_type"]]] != got["product_type"]:
                            res.violation("roundtrip:ModuleIdentityObject", f"{ident!r:.300} -> {got!r:.300}", ident)
                        else:
                            res.dont_care("identity-name-shared-by-several-ids")
            except Exception as e:  # noqa
                res.violation("roundtrip:ModuleIdentityObject", f"{ident!r:.300} raised {e!r:.200}", ident)
        for c in (tg.ipaddress_case(p), tg.revision_case(p)):
            for _ in range(300):
                v = tg.gen_value(c.desc, rng)
                roundtrip(res, c, v)
                if c.desc[0] == "struct":
                    dv = tg.struct_as_dict(c.desc, v)
                    a, b = lib_encode(c.lib, v), lib_encode(c.lib, dv)
                    res.ev()
                    if a[0] != "ok" or b[0] != "ok" or bytes(a[1]) != bytes(b[1]):
                        res.violation("dict-vs-seq", f"{c.label}: encode(seq)={a[1]!r} encode(dict)={b[1]!r}", None)

    # generated compositions -----------------------------------------------------------------------
    for i in range(400 if quick else 4000):
        c = tg.gen_type(p, rng, rng.choice([1, 2, 2, 3]))
        if tg.has_nested_larray(c.desc):
            res.dont_care("nested-derived-length-array-cannot-round-trip-by-design")
            continue
        res.count("generated_types")
        for rep in range(6):
            v = tg.gen_value(c.desc, rng)
            if not rc.in_domain(c.desc, v):
                res.count("generator_out_of_domain")
                continue
            enc = roundtrip(res, c, v)
            if c.desc[0] == "struct":
                dv = tg.struct_as_dict(c.desc, v)
                if dv is not None:
                    if rep % 2:  # key order of a dict carries no meaning
                        ks = list(dv)
                        rng.shuffle(ks)
                        dv = {k_: dv[k_] for k_ in ks}
                    st2, enc2 = lib_encode(c.lib, dv)
                    res.ev()
                    if enc is not None and (st2 != "ok" or bytes(enc2) != enc):
                        res.violation("dict-vs-seq", f"{c.label}: encode(dict) -> {enc2!r:.160} differs from encode(sequence) {enc.hex()[:120]}",
                                      {"type": c.label, "value": v})
                    roundtrip(res, c, dv)
        if i < 4:
            res.sample({"type": c.label, "value": tg.gen_value(c.desc, rng)})
    return res
