"""C09 - emitted CIP paths denote the addressed object (direct part; every scenario that talks to the
reference target additionally has each request path parsed by the same strict parser - see reftarget)."""
from vlib import common
from vlib import refepath as rp

LEVEL = "exploration"
SHARDS = {"quick": 4, "thorough": 16}
TIMEOUT = {"quick": 600, "thorough": 1800}
MIN_EVALUATIONS = {"quick": 100000, "thorough": 100000}  # fewer oracle evaluations than this means the workload collapsed: inconclusive
RULE = ("every path produced by LogicalSegment / request_path / tag_request_path / PortSegment / DataSegment through "
        "PADDED_EPATH.encode is parsed by the strict reference parser (vlib/refepath.py) and compared with the intended "
        "segment sequence: logical types {class, instance, member, connection_point, attribute} x values 0..65535 exhaustive "
        "+ 32-bit boundaries and random; request_path with int and 1/2/4-byte bytes arguments; tag strings from the documented "
        "grammar (names 1..40 chars, 0-3 indices per level over 8/16/32-bit values, nested members, program scope, symbol "
        "instance ids of 8/16/32 bits); port routes by alias/number x slots 0..255 x IPv4 strings of every length; the same segment "
        "objects encoded again after the caller changed them and under packed-then-padded encoding; symbol names with characters outside ASCII "
        "(structure only: length byte = byte count of the name as sent, pad to even); end to end: routed generic messages and Logix "
        "reads against the reference target on every controller configuration (a Micro800 answers to the empty route only, a failed open() "
        "is a violation; every scenario holds an array of structures with a BOOL-array member and reads four `nest_q[i].flags[j]` paths, then closes, "
        "re-opens the same driver object and reads again - the target reports a Forward Open connection path that holds anything but port segments "
        "before the message router); "
        "distinct = (constructor, logical type | name-length parity | port, value-width class) evaluated")
ASSUMPTIONS = [
    "CIP Vol 1 App. C-1.4 segment encodings; logical format 0b10 = 32 bit, 0b11 reserved; pad byte required after 16/32-bit logical headers and odd-length symbols/links",
    "attribute 0 is documented as 'omit'; ports >= 15 and DataSegment(bytes) are not emitted by the drivers: not judged",
    "extended link addresses must be printable host strings",
]
ANCHORS = [
    ("pycomm3/cip/data_types.py", "LogicalSegment._encode"), ("pycomm3/cip/data_types.py", "PortSegment._encode"),
    ("pycomm3/cip/data_types.py", "DataSegment._encode"), ("pycomm3/cip/data_types.py", "EPATH.encode"),
    ("pycomm3/packets/util.py", "tag_request_path"), ("pycomm3/packets/util.py", "_find_tag_index"),
    ("pycomm3/packets/util.py", "request_path"),
]
LTYPES = {"class_id": "class", "instance_id": "instance", "member_id": "member", "connection_point": "connection_point",
          "attribute_id": "attribute"}


def width(v):
    return 8 if v <= 0xFF else 16 if v <= 0xFFFF else 32


def judge(res, key, what, emitted, intended, sized=True, pad=False):
    """emitted: bytes from the library (or exception); intended: list of (kind, ...) without byte widths"""
    res.ev()
    if isinstance(emitted, Exception):
        res.violation(f"raises:{key}", f"{what} raised {emitted!r:.200}", {"what": what})
        return False
    try:
        if sized:
            segs, used = rp.parse_sized(emitted, pad_after_size=pad)
            if used != len(emitted):
                raise rp.PathError(f"{len(emitted) - used} bytes after the path the size prefix announces")
        else:
            segs = rp.parse_padded(emitted)
    except rp.PathError as e:
        res.violation(f"malformed:{key}", f"{what} -> {bytes(emitted).hex()} rejected: {e}", {"what": what, "path": bytes(emitted)})
        return False
    got = [s[:3] for s in segs]
    if got != intended:
        res.violation(f"wrong-path:{key}", f"{what} -> {bytes(emitted).hex()} decodes to {got!r:.200}, intended {intended!r:.200}",
                      {"what": what, "path": bytes(emitted)})
        return False
    return True


def call(fn, *a, **k):
    try:
        return fn(*a, **k)
    except Exception as e:  # noqa
        return e


def rand_name(rng, n):
    first = "ABCDEFGHIJKLMNOPQRSTUVWXYZabcdefghijklmnopqrstuvwxyz_"
    rest = first + "0123456789"
    return rng.choice(first) + "".join(rng.choice(rest) for _ in range(n - 1))


def rand_index(rng):
    r = rng.random()
    if r < 0.4:
        return rng.choice([0, 1, 2, 7, 31, 32, 127, 128, 254, 255])
    if r < 0.7:
        return rng.choice([256, 257, 1000, 32767, 32768, 65534, 65535])
    if r < 0.85:
        return rng.choice([65536, 65537, 1 << 24, (1 << 31) - 1, 1 << 31, (1 << 32) - 1])
    return rng.randrange(1 << rng.choice([8, 16, 32]))


def run(ctx):
    res = common.Result("C09")
    import pycomm3 as p
    from pycomm3.packets import util as putil
    rng = ctx.rng()
    quick = ctx.quick
    enc = p.PADDED_EPATH.encode

    # ---- logical segments ------------------------------------------------------------------------
    specials = [65536, 65537, (1 << 24) - 1, 1 << 24, (1 << 24) + 1, (1 << 31) - 1, 1 << 31, (1 << 31) + 1, (1 << 32) - 2, (1 << 32) - 1, 0x12345]
    for ti, (lname, rname) in enumerate(sorted(LTYPES.items())):
        if not ctx.mine(ti):
            continue
        vals = list(range(65536)) + specials + [rng.randrange(1 << 32) for _ in range(2000 if quick else 50000)]
        for v in vals:
            out = call(enc, [p.LogicalSegment(v, lname)], length=True)
            judge(res, f"logical:{rname}", f"LogicalSegment({v:#x}, {lname!r})", out, [("logical", rname, v)])
            res.seen("logical", rname, width(v), v >> 8 if v < 65536 else v & 0xFF)
        # bytes-valued segments of 1/2/4 bytes
        for size in (1, 2, 4):
            for _ in range(300):
                v = rng.randrange(1 << (8 * size))
                out = call(enc, [p.LogicalSegment(v.to_bytes(size, "little"), lname)], length=True)
                judge(res, f"logical-bytes:{rname}", f"LogicalSegment({v.to_bytes(size, 'little')!r}, {lname!r})", out,
                      [("logical", rname, v)])
                res.seen("logical-bytes", rname, size, v & 0xF)

    # ---- request_path(class, instance, attribute) ----------------------------------------------
    work = 10
    if ctx.mine(work):
        def arg(rng_):
            v = rand_index(rng_)
            form = rng_.random()
            if form < 0.5:
                return v, v
            size = rng_.choice([s for s in (1, 2, 4) if v < (1 << (8 * s))])
            return v.to_bytes(size, "little"), v
        for _ in range(6000 if quick else 120000):
            (c, cv), (i, iv), (a, av) = arg(rng), arg(rng), arg(rng)
            use_attr = rng.random() < 0.6
            intended = [("logical", "class", cv), ("logical", "instance", iv)]
            if use_attr:
                if av == 0:
                    res.dont_care("attribute-0-documented-as-omit")
                    continue
                intended.append(("logical", "attribute", av))
                out = call(putil.request_path, c, i, a)
            else:
                out = call(putil.request_path, c, i) if rng.random() < 0.5 else call(putil.request_path, c, i, b"")
            judge(res, "request_path", f"request_path({c!r}, {i!r}, {(a if use_attr else '')!r})", out, intended)
            res.seen("request_path", width(cv), width(iv), width(av) if use_attr else 0, type(c).__name__, type(i).__name__)

    # ---- tag paths ---------------------------------------------------------------------------------
    for shard_part in range(4):
        work += 1
        if not ctx.mine(work):
            continue
        for _ in range(2500 if quick else 40000):
            nlen = rng.choice([1, 2, 3, 4, 15, 16, 39, 40, rng.randint(1, 40)])
            base = rand_name(rng, nlen)
            prog = rng.random() < 0.25
            use_ids = rng.random() < 0.5
            inst = rng.choice([None, 0, 1, 200, 255, 256, 4000, 65535, 65536, 1 << 20, (1 << 32) - 1, rng.randrange(1, 1 << 16)])
            tag_info = {"instance_id": inst} if inst is not None or rng.random() < 0.5 else {}
            intended = []
            text = ""
            if prog:
                pname = "Program:" + rand_name(rng, rng.choice([1, 2, 7, 8, 20]))
                intended.append(("symbol", pname))
                text = pname + "."
            levels = rng.choice([1, 1, 2, 3, 4])
            for lv in range(levels):
                nm = base if lv == 0 else rand_name(rng, rng.choice([1, 2, 5, 6, 13, 40]))
                idx = [rand_index(rng) for _ in range(rng.choice([0, 0, 1, 1, 2, 3]))]
                if lv == 0 and not prog and use_ids and tag_info.get("instance_id"):
                    intended += [("logical", "class", 0x6B), ("logical", "instance", tag_info["instance_id"])]
                else:
                    intended.append(("symbol", nm))
                intended += [("logical", "member", x) for x in idx]
                sep = rng.choice([",", ",", ", "]) if False else ","
                text += ("." if lv else "") + nm + (f"[{sep.join(str(x) for x in idx)}]" if idx else "")
            out = call(putil.tag_request_path, text, tag_info, use_ids)
            if out is None:
                out = ValueError("tag_request_path returned None")
            judge(res, f"tag_path:{'prog' if prog else 'inst' if intended[0][0] == 'logical' else 'sym'}", f"tag_request_path({text!r}, {tag_info!r}, {use_ids})", out, intended)
            res.seen("tag", nlen % 2, prog, levels, intended[0][0], width(inst or 0), tuple(width(s[2]) for s in intended if s[1] == "member")[:3])
            if _ < 2:
                res.sample({"tag": text, "tag_info": tag_info, "use_instance_ids": use_ids, "path": out.hex() if isinstance(out, bytes) else repr(out)})

    # ---- port routes ---------------------------------------------------------------------------------
    work += 1
    if ctx.mine(work):
        ports = [(a, n) for a, n in rp.PORT_ALIASES.items()] + [(n, n) for n in range(1, 15)]
        for alias, num in ports:
            for slot in range(256):
                form = slot % 3
                link = slot if form == 0 else str(slot)
                out = call(enc, [p.PortSegment(alias, link)], length=True, pad_length=bool(slot % 2))
                judge(res, f"port:{'alias' if isinstance(alias, str) else 'num'}", f"PortSegment({alias!r}, {link!r})", out, [("port", num, slot)], pad=bool(slot % 2))
                res.seen("port", alias, slot >> 5)
        for _ in range(4000 if quick else 60000):
            hops = rng.randint(1, 4)
            segs, intended = [], []
            for h in range(hops):
                alias, num = rng.choice(ports)
                if rng.random() < 0.5:
                    ip = ".".join(str(rng.choice([0, 1, 9, 10, 99, 100, 192, 255, rng.randrange(256)])) for _ in range(4))
                    segs.append(p.PortSegment(alias, ip))
                    intended.append(("port", num, ip.encode()))
                    res.seen("port-ip", len(ip), alias if isinstance(alias, str) else "n")
                else:
                    s = rng.randrange(256)
                    segs.append(p.PortSegment(alias, rng.choice([s, str(s)])))
                    intended.append(("port", num, s))
            padlen = rng.random() < 0.5
            out = call(enc, segs, length=True, pad_length=padlen)
            judge(res, "route", f"PADDED_EPATH.encode({segs!r}, length=True, pad_length={padlen})", out, intended, pad=padlen)
        # routes followed by the message-router path, as Forward Open builds them
        for _ in range(500):
            ip = ".".join(str(rng.randrange(256)) for _ in range(4))
            segs = [p.PortSegment("enet", ip), p.PortSegment("bp", rng.randrange(20)), p.LogicalSegment(2, "class_id"), p.LogicalSegment(1, "instance_id")]
            out = call(enc, segs, length=True)
            judge(res, "route+router", f"route via {ip}", out, [("port", 2, ip.encode()), ("port", 1, segs[1].link_address), ("logical", "class", 2), ("logical", "instance", 1)])
        # The same segment OBJECTS encoded again - after the caller changed them (route[-1].link_address = slot; generic_message
        # again) and under the other packing: every emitted path must denote what the objects say at that moment.
        for _ in range(1500 if quick else 20000):
            alias, num = rng.choice(ports)
            s1, s2 = rng.randrange(256), rng.randrange(256)
            lname, rname = rng.choice(sorted(LTYPES.items()))
            lv1, lv2 = rng.choice([5, 0xFF, 0x1FF, 0x12345]), rng.choice([7, 0x100, 0x2FF, 0x54321])
            seg, lseg = p.PortSegment(alias, s1), p.LogicalSegment(lv1, lname)
            if rng.random() < 0.5 and getattr(p, "PACKED_EPATH", None) is not None:
                call(p.PACKED_EPATH.encode, [seg, lseg])          # packed first: no pad bytes - must not stick to the objects
            out = call(enc, [seg, lseg], length=True)
            judge(res, "reuse:first", f"PADDED_EPATH.encode([PortSegment({alias!r}, {s1}), LogicalSegment({lv1:#x}, {lname!r})])", out,
                  [("port", num, s1), ("logical", rname, lv1)])
            seg.link_address, lseg.logical_value = s2, lv2
            out = call(enc, [seg, lseg], length=True)
            judge(res, "reuse:changed", f"the same segment objects after link_address = {s2}, logical_value = {lv2:#x} (were {s1}, {lv1:#x})", out,
                  [("port", num, s2), ("logical", rname, lv2)])
            res.seen("reuse", width(lv1), width(lv2), isinstance(alias, str))
        # symbolic segments whose name holds characters outside ASCII (Logix itself has none; the encoder is public): judged on
        # STRUCTURE only, whatever encoding the library picks - word count, length byte = number of name BYTES, pad byte iff odd
        for n in range(1, 40):
            base = rand_name(rng, n)
            k = rng.randrange(len(base))
            nm = base[:k] + rng.choice(["é", "ü", "ß", "Ω", "ж", "中", "é" * 2, "€"]) + base[k + 1:]
            out = call(enc, [p.DataSegment(nm)], length=True)
            res.ev()
            res.seen("symbol-non-ascii", n % 2, len(nm.encode("utf-8")) % 2)
            if isinstance(out, Exception):
                res.dont_care("non-ascii-symbol-rejected-by-the-encoder")
                continue
            o = bytes(out)
            why = None
            if len(o) < 4 or len(o) % 2 == 0 or o[0] * 2 != len(o) - 1:
                why = f"word count {o[0] if o else None} does not describe the {max(len(o) - 1, 0)} bytes that follow"
            elif o[1] != 0x91:
                why = f"segment type {o[1]:#x} is not an ANSI extended symbol segment"
            else:
                ln = o[2]
                name_bytes, rest = o[3:3 + ln], o[3 + ln:]
                ok_name = any(name_bytes == nm.encode(e_, "ignore") and nm.encode(e_, "ignore").decode(e_) == nm for e_ in ("utf-8", "latin-1", "utf-16-le"))
                if len(name_bytes) != ln or not ok_name:
                    why = f"length byte {ln} does not match the bytes of the name ({len(nm)} characters, {len(nm.encode('utf-8'))} UTF-8 bytes)"
                elif rest != (b"\x00" if ln % 2 else b""):
                    why = f"pad after a {ln}-byte name is {rest.hex() or 'missing'}"
            if why:
                res.violation("malformed:symbol-non-ascii", f"DataSegment({nm!r}) -> {o.hex()}: {why}", {"name": nm, "path": o})
        # symbolic data segments on their own
        for n in range(1, 60):
            nm = rand_name(rng, n)
            out = call(enc, [p.DataSegment(nm)], length=True)
            judge(res, "symbol", f"DataSegment({nm!r})", out, [("symbol", nm)])
            res.seen("symbol", n)

    # ---- end to end: paths and routes as the reference target receives them ---------------------------------------------------------
    from vlib import devices, refpath, reftarget as rt
    from vlib.bench import Bench, ScenarioDead
    from vlib.logixbench import CONFIGS, LogixScenario
    from vlib import logixreq
    for sc_i in range(40 if quick else 400):
        if not ctx.mine(sc_i):
            continue
        try:
            b = Bench(rng)
            hops = refpath.gen_route(rng, max_hops=3) or [(1, rng.choice([0, 2, 5]))]
            dev = rt.Device(devices.random_identity(rng), rng, b.log)
            front = rt.Device(devices.random_identity(rng), rng, b.log)
            routes = {tuple(hops): dev}
            sib = {}
            for slot in rng.sample(range(0, 17), 3):
                r = tuple(hops[:-1]) + ((1, slot),)
                if r not in routes:
                    sib[slot] = routes[r] = rt.Device(devices.random_identity(rng), rng, b.log)
            t = rt.RefTarget(rng, front=front, routes=routes, log=b.log)
            host = refpath.gen_host(rng)
            b.set_target(t, host=host)
            drv = p.CIPDriver(refpath.spell(rng, host, None, hops, False))
            for d_ in list(routes.values()) + [front]:
                d_.responder = lambda rq: (0, (), b"\x00")
            b.call("open", drv.open)
            for step in range(10):
                if step in (3, 7) and sib:
                    slot = rng.choice(sorted(sib))
                    nj = len(sib[slot].journal)
                    b.call("get_module_info", drv.get_module_info, slot)
                    res.ev()
                    if len(sib[slot].journal) != nj + 1:
                        res.violation("route:get_module_info", f"get_module_info({slot}) over {hops!r} did not reach the module at {tuple(hops[:-1]) + ((1, slot),)!r}", {"hops": hops, "slot": slot})
                    continue
                cls_v, inst_v = rng.choice([0x64, 0x1FF, 0x12345]), rng.choice([1, 0x300, 0x10000])
                mode = rng.choice(["connected", "usend", "ucmm"])
                nj = len(dev.journal) if mode != "ucmm" else len(front.journal)
                kw = {"connected": True} if mode == "connected" else {"connected": False, "unconnected_send": mode == "usend"}
                b.call("gm", drv.generic_message, service=0x0E, class_code=cls_v, instance=inst_v, attribute=3, **kw)
                res.ev()
                res.seen("e2e", mode, len(hops), width(cls_v), width(inst_v))
                tgt = dev if mode != "ucmm" else front
                if len(tgt.journal) != nj + 1:
                    res.violation(f"route:{mode}", f"{mode} generic message over path {hops!r} did not reach the addressed device (after get_module_info calls: {step > 3})", {"hops": hops, "mode": mode})
                else:
                    j = tgt.journal[-1]
                    want = [("logical", "class", cls_v), ("logical", "instance", inst_v), ("logical", "attribute", 3)]
                    if j["segs"] != want or (mode != "ucmm" and tuple(j["route"]) != tuple(hops)):
                        res.violation(f"wrong-path:e2e:{mode}", f"target decoded path {j['segs']!r} route {j['route']!r}; intended {want!r} via {tuple(hops)!r}", {"hops": hops})
            b.call("close", drv.close)
            for pid, key, what, w in b.log.violations:
                if pid == "C09":
                    res.violation(f"target:{key}", what, {"head": w})
            b.log.violations.clear()
            b.close()
        except ScenarioDead:
            continue
    for pi in range(4 if quick else 40):
        try:
            cfg_ = CONFIGS[(pi * ctx.nshards + ctx.shard) % len(CONFIGS)]
            from vlib import refproject as rpj
            prj_ = rpj.generate_project(rng, "medium", fw=cfg_[1], micro800=cfg_[2])
            # two indices in one path: a BOOL-array member of an element of an array of structures (`nest_q[2].flags[40]`) - in every
            # scenario, not only when the random project happens to contain one
            _, nest_ = rpj.add_struct_tag(prj_, rng, "Nest_q", [("n", "INT", 0), ("flags", "DWORD", 2), ("v", "DINT", 0)], "nest_q", dims=(4,))
            sc = LogixScenario(rng, config=cfg_, project=prj_)
            if sc.ok():
                picked = []
                for _ in range(60):
                    r = logixreq.gen_request(sc.prj, rng, sc.conn_size, tag=nest_)
                    if "boolarr" in r.shape:
                        picked.append(r)
                        if len(picked) == 4:
                            break
                for r in picked:
                    st, tg_ = sc.b.call("read", sc.drv.read, r.text)
                    res.ev()
                    res.seen("e2e-tag", r.shape, sc.label)
                    if st != "ok" or not tg_ or not r.value_equal(tg_.value)[0]:
                        res.violation("wrong-path:e2e:tag", f"read({r.text!r}) did not return the addressed element's value ({sc.label}): {tg_!r:.120}", {"request": r.text})
                res.count("e2e-bool-array-member-of-a-structure-array-element", len(picked))
            if not sc.ok():
                # the Forward Open connection path / upload requests did not denote this controller (e.g. a backplane hop sent to a Micro800)
                res.ev()
                res.violation(f"wrong-path:e2e:open:{'micro800' if sc.micro else 'logix'}", f"LogixDriver({sc.path!r}).open() against a conforming {sc.label} controller -> {sc.opened!r:.200}", {"config": sc.label})
            if sc.ok():
                for ci in range(10):
                    reqs = [logixreq.gen_request(sc.prj, rng, sc.conn_size) for _ in range(rng.choice([1, 3, 8]))]
                    st, out = sc.b.call("read", sc.drv.read, *[r.text for r in reqs])
                    outs = out if isinstance(out, list) else [out]
                    for r, tg_ in zip(reqs, outs if st == "ok" else []):
                        res.ev()
                        res.seen("e2e-tag", r.shape, sc.label)
                        # the value can only be right if the emitted path denoted the addressed element
                        if not tg_ or not r.value_equal(tg_.value)[0]:
                            res.violation("wrong-path:e2e:tag", f"read({r.text!r}) did not return the addressed element's value ({sc.label}): {tg_!r:.120}", {"request": r.text})
                # a second session of the same driver object: the connection path, the routes and the tag paths it emits are those of the
                # first one (a path list extended in place during close() shows only now)
                sc.b.call("close", sc.drv.close)
                st, out = sc.b.call("open", sc.drv.open)
                res.ev()
                if st != "ok" or not out:
                    res.violation("wrong-path:e2e:reopen", f"open() after close() on the same driver object ({sc.label}) -> {out!r:.160}", {"config": sc.label})
                else:
                    for r in [logixreq.gen_request(sc.prj, rng, sc.conn_size) for _ in range(3)]:
                        st, tg_ = sc.b.call("read", sc.drv.read, r.text)
                        res.ev()
                        res.seen("e2e-tag-second-session", r.shape, sc.label)
                        if st != "ok" or not tg_ or not r.value_equal(tg_.value)[0]:
                            res.violation("wrong-path:e2e:reopen", f"second session: read({r.text!r}) did not return the addressed element's value ({sc.label}): {tg_!r:.120}", {"request": r.text})
            for pid, key, what, w in sc.b.log.violations:
                if pid == "C09":
                    res.violation(f"target:{key}", what, {"head": w})
            res.count("paths-parsed-by-target", sc.b.log.counts.get("paths-parsed", 0))
            sc.close()
        except ScenarioDead:
            continue
    return res
