"""C02 - tag writes change exactly the addressed data, exactly once."""
from vlib.bench import ScenarioDead
from vlib import common, logixreq
from vlib import refproject as rpj
from vlib.logixbench import CONFIGS, LogixScenario

LEVEL = "exploration"
SHARDS = {"quick": 8, "thorough": 16}
TIMEOUT = {"quick": 900, "thorough": 3000}
MIN_EVALUATIONS = {"quick": 10000, "thorough": 10000}  # fewer oracle evaluations than this means the workload collapsed: inconclusive
RULE = ("random projects/memory images/configurations as for C01; each write() call carries 1-12 requests (atomic values at integer "
        "boundaries, REAL incl. infinities/denormals, array slices with start index and over-long value lists, members, bits of "
        "SINT/INT/DINT/LINT, several bits of one word, BOOL-array elements and aligned DWORD ranges (true elements also spelled 1 / 2 / 0xFF / -1: "
        "judged by truthiness), BOOL members, strings shorter/equal/longer "
        "than capacity, nested structure dicts, duplicates, sizes forcing fragmented writes; bits of unsigned integers too); in 20 % of the calls the target "
        "refuses the n-th write service with a general status drawn from tabled AND untabled codes (0x17, 0x19, 0x20, 0x21, 0x30, 0xD0 ..., and 0x06 for the services "
        "that do not continue) - such a write may not "
        "report success; values without an encoding for the tag's type (3.7 / nan / inf / 1e30 to an integer) may neither change memory nor report success; "
        "the caller's value objects are deep-copied before the call and must be unchanged after it; every third project holds an array sized so that overlapping "
        "plain writes of one call (slice, slice again, element) land in different multi-service packets - the last request for a byte must win; every fifth project a second "
        "driver in the same process talks to ANOTHER controller that has tags of the same names (other types): interleaved writes change the right controller only; the whole controller memory is snapshotted "
        "before the call and diffed after it against the reference expectation (addressed bytes = reference encoding, padding/hidden/after-LEN "
        "bytes don't-care, every other byte unchanged); the target's journal of executed write services is matched against the requests "
        "(exactly one Write / one tiling fragment sequence / one read-modify-write per word with exact-width masks touching only requested "
        "bits); each written address is read back through the driver; every fourth project is written through a second driver (init_tags=False, "
        "shared tag list) whose first connected request - Forward Open and its fallback included - is one of these writes. distinct = (request shape, value kind, service path, config) evaluated")
ASSUMPTIONS = [
    "reference target validates like a controller: type code / structure handle must match, data length must equal count x element size, read-modify-write length must be 2 + 2 x size",
    "requests of one call that overlap in memory: each is judged at journal level (executed exactly once with its own encoding); in addition a byte addressed by "
    "several successful PLAIN writes (one Write Tag service each) must hold the value of the last of them in request order - the only reading under which 'reading the "
    "same address afterwards returns the written value' can hold for the final request; overlaps involving fragmented transfers or bit writes (classes the driver "
    "sends after the plain writes) stay at journal level, their mutual order is not stated anywhere",
    "string DATA bytes after LEN, structure padding and hidden non-BOOL members are don't-cares",
]
ANCHORS = [
    ("pycomm3/logix_driver.py", "encode_value"), ("pycomm3/logix_driver.py", "LogixDriver._write_build_single_request"),
    ("pycomm3/logix_driver.py", "LogixDriver._write_build_multi_requests"), ("pycomm3/logix_driver.py", "LogixDriver._send_write_fragmented"),
    ("pycomm3/packets/logix.py", "ReadModifyWriteRequestPacket._setup_message"), ("pycomm3/packets/logix.py", "ReadModifyWriteRequestPacket.set_bit"),
    ("pycomm3/packets/logix.py", "WriteTagRequestPacket.tag_only_message"), ("pycomm3/packets/logix.py", "WriteTagFragmentedRequestPacket.tag_only_message"),
    ("pycomm3/packets/base.py", "RequestPacket.build_message"), ("pycomm3/custom_types.py", "StructTag._encode"),
    ("pycomm3/custom_types.py", "FixedSizeString._encode"), ("pycomm3/logix_driver.py", "LogixDriver.write"),
]


def merge_masks(reqs):
    """combined per-tag byte expectations; returns (masks: {tagname: {offset: spec}}, overlapping: set of request indexes)"""
    masks, owners, overlapping = {}, {}, set()
    for i, r in enumerate(reqs):
        m = logixreq.mask_for_write(r)
        tm = masks.setdefault(r.tag.full_name, {})
        for off, spec in m.items():
            key = (r.tag.full_name, off)
            bits_new = set(spec[1]) if isinstance(spec, tuple) and spec[0] == "bits" else None
            if off in tm:
                cur = tm[off]
                for j, bits_old in owners[key]:
                    if bits_old is None or bits_new is None or (bits_old & bits_new):
                        overlapping.add(i)
                        overlapping.add(j)
                if isinstance(cur, tuple) and cur[0] == "bits" and bits_new is not None:
                    merged = dict(cur[1])
                    merged.update(spec[1])
                    tm[off] = ("bits", merged)
                elif spec is None and cur is None:
                    tm[off] = None
                else:
                    tm[off] = None if (spec is None or cur is None) else tm[off]
                    if spec is not None and cur is not None:
                        tm[off] = None
                owners[key].append((i, bits_new))
            else:
                tm[off] = spec
                owners[key] = [(i, bits_new)]
    return masks, overlapping


def tm_keys(tm, name, off):
    return {(name, off)} if off in tm else set()


def run(ctx):
    res = common.Result("C02")
    rng = ctx.rng()
    quick = ctx.quick
    nproj = 40 if quick else 400
    for pi in range(nproj):  # WRAPPED
        try:
            cfg = CONFIGS[(pi * ctx.nshards + ctx.shard) % len(CONFIGS)]
            size_ = rng.choice(["small", "small", "medium", "medium", "large", "fixture"])
            project_, ovl = None, None
            if size_ != "fixture" and pi % 3 == 0:
                # a DINT array sized so that two slices of it do not share a multi-service packet: overlapping requests of one call
                # are then spread over several packets (see "last request wins" below)
                project_ = rpj.generate_project(rng, size_, fw=cfg[1], micro800=cfg[2])
                ovl = rpj.add_array_tag(project_, rng, "OvlArr_q", rng.choice(["DINT", "INT", "REAL"]), (4000 if cfg[3] else 500) * 6 // 10 // 4 + rng.randrange(40))
            sc = LogixScenario(rng, size=size_, config=cfg, project=project_)
            res.count("projects")
            if not sc.ok():
                res.ev()
                res.violation("open-failed", f"LogixDriver.open() against a conforming controller ({sc.label}) -> {sc.opened!r:.300}", {"config": sc.label})
                sc.close()
                continue
            dev, prj = sc.dev, sc.prj
            # every fourth project is written through a second driver that shares the uploaded tag list (documented idiom): its first
            # connected request - the Forward Open with its fallback included - is a write of this check
            if pi % 4 == 1:
                res.ev()
                if sc.use_second_driver():
                    res.count("second-driver-projects")
                else:
                    res.violation("second-driver-open-failed", f"a second LogixDriver(init_tags=False) sharing the tag list failed to open ({sc.label})", {"config": sc.label})
            for ci in range(16 if quick else 40):
                k = rng.choice([1, 1, 1, 2, 3, 5, 8, 12])
                reqs = []
                for _ in range(k):
                    r = logixreq.gen_request(prj, rng, sc.conn_size, for_write=True)
                    if r.kind == "value" and r.dtype.kind == "struct" and any(m.name.startswith("__") for m in r.dtype.members):
                        continue
                    reqs.append(logixreq.attach_value(r, rng))
                if len(reqs) >= 2 and rng.random() < 0.35:
                    # several bits of one word in one call
                    base = next((r for r in reqs if r.kind == "bit"), None)
                    if base is not None:
                        for b in rng.sample(range(8 * base.dtype.size), min(3, 8 * base.dtype.size)):
                            txt = base.text.rsplit(".", 1)[0] + f".{b}"
                            r2 = logixreq.Req(txt, base.tag, base.dtype, base.offset, 1, False, "bit", bit=b, avail=1, shape=base.shape)
                            reqs.append(logixreq.attach_value(r2, rng))
                if len(reqs) >= 2 and rng.random() < 0.15:
                    dup = reqs[0]
                    r2 = logixreq.Req(dup.text, dup.tag, dup.dtype, dup.offset, dup.count, dup.explicit, dup.kind, bit=dup.bit, avail=dup.avail, shape=dup.shape)
                    reqs.append(logixreq.attach_value(r2, rng))
                ordered = False
                if ovl is not None and ci % 4 == 1:
                    # requests that overlap in memory, all plain writes: slice, the same slice again, then one element inside it - in
                    # this order, so that a driver which packs requests out of order shows (the last request for a byte must win)
                    n_ = min(ovl.elements, (sc.conn_size * 6 // 10) // ovl.dtype.size)
                    k_ = rng.randrange(n_)
                    reqs = [logixreq.Req(f"{ovl.name}{{{n_}}}", ovl, ovl.dtype, 0, n_, True, "value", avail=ovl.elements, shape="[]{n}:atomic"),
                            logixreq.Req(f"{ovl.name}[0]{{{n_}}}", ovl, ovl.dtype, 0, n_, True, "value", avail=ovl.elements, shape="[1d]{n}:atomic"),
                            logixreq.Req(f"{ovl.name}[{k_}]", ovl, ovl.dtype, k_ * ovl.dtype.size, 1, False, "value", avail=ovl.elements - k_, shape="[1d]:atomic")]
                    if rng.random() < 0.5:
                        reqs.append(logixreq.Req(f"{ovl.name}[{k_}]", ovl, ovl.dtype, k_ * ovl.dtype.size, 1, False, "value", avail=ovl.elements - k_, shape="[1d]:atomic"))
                    reqs = [logixreq.attach_value(r_, rng) for r_ in reqs]
                    ordered = True
                    res.count("calls-with-ordered-overlapping-requests")
                if not reqs:
                    continue
                if not ordered:
                    rng.shuffle(reqs)
                snap = prj.snapshot()
                jbefore = len(dev.write_journal)
                # sometimes the controller refuses one write service of the call (e.g. the 2nd fragment of a fragmented write):
                # a request may then fail, but whatever is reported as success must still be exact
                fired = []
                if rng.random() < 0.2:
                    nth = rng.choice([1, 2, 2, 3, 4])
                    cnt = {"n": 0}
                    # (also general statuses the library has no text for - 0x17..0x21, 0x30, 0xD0: a refusal is a refusal)
                    # 0x06 ("partial transfer") means "go on" for the fragmented services only: as the answer to a Write Tag or a
                    # Read-Modify-Write it is a refusal like any other - nothing was stored
                    stt = rng.choice([(0x02, ()), (0x05, ()), (0xFF, (0x2107,)), (0x0F, ()), (0x17, ()), (0x19, ()), (0x20, ()), (0x21, (0x0003,)), (0x30, ()), (0xD0, ()),
                                      (0x06, ()), (0x06, ())])

                    def inject(rq, loc, nth=nth, cnt=cnt, stt=stt):
                        if stt[0] == 0x06 and rq.service == 0x53:
                            return None
                        if rq.service in (0x4D, 0x53, 0x4E):
                            cnt["n"] += 1
                            if cnt["n"] == nth:
                                fired.append(loc.tag.full_name)
                                return stt
                        return None
                    dev.inject_status = inject
                args = [(r.text, r.value) for r in reqs]
                import copy
                before_vals = [copy.deepcopy(v) if isinstance(v, (list, dict)) else None for _, v in args]
                st, out = sc.b.call("write", sc.drv.write, *args) if len(args) > 1 or rng.random() < 0.5 else sc.b.call("write", sc.drv.write, args[0][0], args[0][1])
                for (txt_, v_), snap_ in zip(args, before_vals):   # the caller's value objects come back unchanged
                    if snap_ is not None and v_ != snap_:
                        res.ev()
                        res.violation("write-modified-the-callers-value", f"write(({txt_!r}, <{type(v_).__name__} of {len(snap_)}>)) left the caller's object as {v_!r:.100} (was {snap_!r:.100})", {"request": txt_})
                        break
                dev.inject_status = None
                if fired:
                    dev.write_transfers.clear()
                    res.count("calls-with-refused-service")
                dev.finish_transfers()
                res.count("write_calls")
                if st != "ok":
                    res.ev()
                    res.violation(f"write-raises:{type(out).__name__}", f"write({[a[0] for a in args]!r:.200}) raised {out!r:.200} ({sc.label})", {"requests": [a[0] for a in args]})
                    continue
                tags = out if isinstance(out, list) else [out]
                if len(tags) != len(reqs):
                    res.ev()
                    res.violation("shape", f"write() with {len(reqs)} requests returned {len(tags)} results", None)
                    continue
                masks, overlapping = merge_masks(reqs)
                journal = dev.write_journal[jbefore:]
                after = prj.snapshot()
                ok_idx = set()
                for i, (r, t) in enumerate(zip(reqs, tags)):
                    res.ev()
                    res.seen(r.shape, r.kind, type(r.value).__name__, sc.label, min(r.nbytes() // 64, 80), len(reqs) == 1)
                    wit = {"request": r.text, "value": r.value, "config": sc.label, "conn_size": sc.conn_size, "n_requests": len(reqs), "bytes": r.nbytes(),
                           "tag_type": r.tag.dtype.name, "dims": r.tag.dims}
                    if not t and r.tag.full_name in fired:
                        res.count("requests-failed-by-injected-refusal")
                    elif not t:
                        szc = "near-conn" if abs(r.nbytes() - sc.conn_size) <= 64 else "small" if r.nbytes() < sc.conn_size else "large"
                        res.violation(f"valid-write-fails:{r.shape.split(':')[-1]}:{'single' if len(reqs) == 1 or sc.micro else 'multi'}:{szc}",
                                      f"write({r.text!r}, {r.value!r:.80}) [{len(reqs)} requests, {r.nbytes()} bytes, {sc.label}, connection {sc.conn_size}] -> {t!r:.200}", wit)
                    else:
                        ok_idx.add(i)
                # ---- journal: each successful request executed exactly once --------------------------------------------
                used = [False] * len(journal)
                bit_groups = {}
                plain_idx = set()   # successful requests the controller executed as ONE plain Write Tag service
                for i in sorted(ok_idx):
                    r = reqs[i]
                    if r.kind == "bit" or (r.kind == "boolarray" and not r.is_list):
                        if r.kind == "bit":
                            word_off, bit = r.offset, r.bit
                        else:
                            word_off, bit = r.offset + 4 * (r.bit // 32), r.bit % 32
                        bit_groups.setdefault((r.tag.full_name, word_off, r.dtype.size), []).append((i, bit, bool(logixreq.expected_written(r))))
                        continue
                    lo = r.byte_ranges()[0][0]
                    total = r.nbytes() if r.kind != "boolmember" else 1
                    hits = [j for j, e in enumerate(journal) if not used[j] and e["kind"] == "write" and e["tag"] == r.tag.full_name and e["offset"] == lo and e["len"] == total
                            and (e.get("bit") == (r.bit if r.kind == "boolmember" else None))]
                    if hits:
                        used[hits[0]] = True
                        if r.kind == "value":
                            plain_idx.add(i)
                        continue
                    frags = [(j, e) for j, e in enumerate(journal) if not used[j] and e["kind"] == "write_frag" and e["tag"] == r.tag.full_name
                             and lo <= e["offset"] < lo + total and e["total"] == total]
                    pos, chain = lo, []
                    # a complete tiling may be interleaved with the remains of another (refused) transfer of the same tag
                    for si, (sj, se) in enumerate(frags):
                        if se["offset"] != lo:
                            continue
                        pos, chain = lo + se["len"], [sj]
                        for j, e in frags[si + 1:]:
                            if pos == lo + total:
                                break
                            if e["offset"] == pos:
                                chain.append(j)
                                pos += e["len"]
                        if pos == lo + total:
                            break
                    if pos == lo + total and chain:
                        for j in chain:
                            used[j] = True
                        res.count("fragmented-writes-verified")
                        continue
                    res.violation("reported-success-but-not-executed-once",
                                  f"write({r.text!r}) reported success but the controller executed no single write / tiling fragment sequence for bytes [{lo},{lo + total}) of {r.tag.full_name}; journal: {[(e['kind'], e['offset'], e['len']) for e in journal if e['tag'] == r.tag.full_name]!r:.300}",
                                  {"request": r.text, "config": sc.label})
                for (tname, woff, size), items in bit_groups.items():
                    want_bits = {}
                    for i, bit, val in items:
                        want_bits.setdefault(bit, []).append(val)
                    entries = [(j, e) for j, e in enumerate(journal) if not used[j] and e["kind"] == "rmw" and e["tag"] == tname and e["offset"] == woff]
                    touched = {}
                    full = (1 << (8 * size)) - 1
                    for j, e in entries:
                        used[j] = True
                        if e["len"] != size:
                            res.violation("rmw-mask-width", f"read-modify-write on {tname} uses {e['len']}-byte masks, tag is {size} bytes wide", None)
                        setb, clrb = e["or"], (~e["and"]) & full
                        if setb & clrb:
                            res.violation("rmw-masks-contradict", f"read-modify-write on {tname}: OR {e['or']:#x} and AND {e['and']:#x} set and clear the same bit", None)
                        for b in range(8 * size):
                            if setb >> b & 1:
                                touched.setdefault(b, []).append(True)
                            if clrb >> b & 1:
                                touched.setdefault(b, []).append(False)
                    for b, vals in want_bits.items():
                        got = touched.get(b, [])
                        if not (1 <= len(got) <= len(vals)) or any(g not in vals for g in got):
                            res.violation("bit-write-not-applied-once", f"{len(vals)} request(s) for bit {b} of {tname}@{woff} (last value {vals[-1]}) but the controller's read-modify-write services touched it {got!r}",
                                          {"tag": tname, "bit": b, "config": sc.label, "n_requests": len(reqs)})
                    extra = set(touched) - set(want_bits)
                    if extra:
                        res.violation("rmw-touches-unrequested-bits", f"read-modify-write on {tname}@{woff} also set/cleared bits {sorted(extra)} that no request named (requested {sorted(want_bits)})",
                                      {"tag": tname, "config": sc.label})
                stray = [(e["kind"], e["tag"], e["offset"], e["len"]) for j, e in enumerate(journal) if not used[j] and e["kind"] != "rmw-rejected"]
                failed_tags = {reqs[i].tag.full_name for i in range(len(reqs)) if i not in ok_idx}
                stray = [s for s in stray if s[1] not in failed_tags]
                if stray:
                    res.violation("extra-write-executed", f"the controller executed write services no successful request accounts for: {stray!r:.300} (requests {[r.text for r in reqs]!r:.200})",
                                  {"config": sc.label, "requests": [r.text for r in reqs]})
                # ---- memory: addressed bytes hold the encoding, nothing else changed -------------------------------------------
                failed_ranges = {}
                for i, r in enumerate(reqs):
                    if i not in ok_idx:
                        for lo, hi in r.byte_ranges():
                            failed_ranges.setdefault(r.tag.full_name, []).append((lo, hi))
                for tname, before in snap.items():
                    now = after[tname]
                    if now == before and tname not in masks:
                        continue
                    tm = masks.get(tname, {})
                    skip = failed_ranges.get(tname, [])
                    for off in range(len(now)):
                        if any(lo <= off < hi for lo, hi in skip):
                            continue
                        spec = tm.get(off, "untouched") if off in tm else "untouched"
                        b = now[off]
                        if spec == "untouched":
                            if b != before[off]:
                                res.violation("collateral-change", f"write({[r.text for r in reqs]!r:.160}) changed byte {off} of {tname} ({before[off]:#04x} -> {b:#04x}), which no request addresses",
                                              {"config": sc.label, "requests": [(r.text, r.value) for r in reqs][:6]})
                                break
                        elif spec is None:
                            continue
                        elif isinstance(spec, tuple) and spec[0] == "bits":
                            bad = [bit for bit, v in spec[1].items() if bool(b >> bit & 1) != v]
                            keep = [bit for bit in range(8) if bit not in spec[1] and (b >> bit & 1) != (before[off] >> bit & 1)]
                            owner_overlap = any(i in overlapping for i, r in enumerate(reqs) if r.tag.full_name == tname)
                            if bad and not owner_overlap:
                                res.violation("bit-not-written", f"after write({[r.text for r in reqs]!r:.160}) byte {off} of {tname} is {b:#04x}: bit(s) {bad} do not hold the written value", {"config": sc.label})
                                break
                            if keep and not any(m_.is_bit is False for m_ in ()) and not _struct_covers(reqs, tname, off):
                                res.violation("bit-write-changes-other-bits", f"write({[r.text for r in reqs]!r:.160}) changed bit(s) {keep} of byte {off} of {tname} ({before[off]:#04x} -> {b:#04x}) besides the addressed ones",
                                              {"config": sc.label})
                                break
                        elif isinstance(spec, tuple) and spec[0] == "bool":
                            if bool(b) != spec[1]:
                                res.violation("wrong-bytes-written", f"BOOL {tname} holds {b:#04x} after writing {spec[1]}", {"config": sc.label})
                                break
                        elif b != spec:
                            if any(i in overlapping for i, r in enumerate(reqs) if r.tag.full_name == tname):
                                continue
                            rr = next((r for r in reqs if r.tag.full_name == tname and any(lo <= off < hi for lo, hi in r.byte_ranges())), reqs[0])
                            res.violation(f"wrong-bytes-written:{rr.dtype.kind}", f"after write({rr.text!r}, {rr.value!r:.80}) byte {off} of {tname} is {b:#04x}, reference encoding has {spec:#04x} ({sc.label})",
                                          {"request": rr.text, "value": rr.value, "config": sc.label})
                            break
                    # Requests of one call that overlap in memory.  What the statement fixes for them: a request reported as successful
                    # leaves its value in memory, and a later read returns "the written value" - for a byte that several successful
                    # requests address that can only be the value of the LAST of them.  Judged where all those requests are plain Write
                    # Tag services (one service each, no fragmentation, no read-modify-write): the driver sends these in request
                    # order.  Overlaps that involve fragmented transfers or bit writes stay judged at journal level only - the driver
                    # sends those classes after the plain writes, and no document says what a caller may expect of such a mixture.
                    if overlapping and tname in masks:
                        owners_of = {}
                        for i, r in enumerate(reqs):
                            if r.tag.full_name == tname and i in overlapping:
                                for off_, spec_ in logixreq.mask_for_write(r).items():
                                    owners_of.setdefault(off_, []).append((i, spec_))
                        for off_, lst in owners_of.items():
                            if len(lst) < 2 or any(i not in plain_idx for i, _ in lst) or any(lo <= off_ < hi for lo, hi in skip):
                                continue
                            last_i, last_spec = lst[-1]
                            res.count("overlapped-bytes-judged-last-request-wins")
                            if isinstance(last_spec, int) and now[off_] != last_spec:
                                res.violation("overlapping-writes:last-request-does-not-win",
                                              f"write({[r.text for r in reqs]!r:.200}): byte {off_} of {tname} is addressed by requests {[i for i, _ in lst]} (all plain writes, all successful); "
                                              f"it holds {now[off_]:#04x}, the last of them ({reqs[last_i].text!r}) wrote {last_spec:#04x} ({sc.label})",
                                              {"config": sc.label, "requests": [r.text for r in reqs]})
                                break
                # ---- read back -----------------------------------------------------------------------------------------------------
                for i in sorted(ok_idx):
                    if i in overlapping or rng.random() < 0.5:
                        continue
                    r = reqs[i]
                    st, t = sc.b.call("read", sc.drv.read, r.text)
                    res.ev()
                    want = logixreq.expected_written(r)
                    from vlib import refcodec as rc
                    if st != "ok" or not t or not rc.values_equal(r.desc(), want, t.value):
                        res.violation(f"read-back-differs:{r.shape.split(':')[-1]}", f"write({r.text!r}, {r.value!r:.80}) succeeded but read() then returns {t!r:.160}; expected {want!r:.100} ({sc.label})",
                                      {"request": r.text, "value": r.value, "config": sc.label})
                for e in journal:
                    res.count(f"service:{e['kind']}{'-embedded' if e.get('embedded') else ''}")
                if pi == 0 and ci < 3:
                    res.sample({"config": sc.label, "writes": [(r.text, r.value) for r in reqs][:3], "journal": [(e["kind"], e["tag"], e["offset"], e["len"]) for e in journal][:6]})
            # ---- values that have no encoding in the destination type: "success" could only mean that something else was written.
            # A non-integral float for an integer tag (3.7 is not 3), a float beyond the type's range: the write must not report
            # success and the controller's memory must stay as it was.
            ints = [t for t in prj.user_tags() if t.dtype.kind == "atomic" and t.dtype.name in logixreq.rpj.INT_ATOMS and not t.dims]
            for t in rng.sample(ints, min(3, len(ints))):
                badv = rng.choice([3.7, -0.5, 0.1, 1e30, -2.5e19, float("nan"), float("inf")])
                mem_before = bytes(t.data)
                dev.write_journal.clear()
                st, out = sc.b.call("write", sc.drv.write, t.full_name, badv)
                res.ev()
                res.seen("no-encoding", t.dtype.name, "nan" if badv != badv else "inf" if badv in (float("inf"),) else "frac" if abs(badv) < 100 else "huge", sc.label)
                if bytes(t.data) != mem_before:
                    res.violation("value-without-encoding-changed-memory", f"write({t.full_name!r}, {badv!r}) to a {t.dtype.name} changed the controller's memory from {mem_before.hex()} to {bytes(t.data).hex()} ({sc.label})", {"tag": t.full_name})
                    t.data[:] = mem_before
                elif st == "ok" and out:
                    res.violation("value-without-encoding-reported-success", f"write({t.full_name!r}, {badv!r}) to a {t.dtype.name} reported success: {out!r:.160} ({sc.label})", {"tag": t.full_name})
                dev.write_journal.clear()
            # ---- BOOL-array ranges that do not fill whole 32-bit words ('flags[32]{8}', 'flags[0]{33}').  The documented forms are single
            # elements and whole-word ranges; whatever the library makes of a ragged one, a reported success means that exactly the
            # addressed BOOLs hold the values and no other bit of the controller has changed (a refusal is fine too)
            barrs = [t for t in prj.user_tags() if t.dtype.name == "DWORD" and t.dims and t.kind == "user"]
            for t in rng.sample(barrs, min(2, len(barrs))):
                nb = 32 * t.dims[0]
                w0 = rng.randrange(t.dims[0])
                fits = [k for k in (2, 8, 31, 33, 40, 63) if 32 * w0 + k <= nb]
                if not fits:
                    continue
                n = rng.choice(fits)
                vals = [rng.random() < 0.5 for _ in range(n)]
                txt = f"{t.full_name}[{32 * w0}]{{{n}}}"
                before = prj.snapshot()
                mem_before = bytes(t.data)
                dev.write_journal.clear()
                st, out = sc.b.call("write", sc.drv.write, txt, vals)
                dev.finish_transfers()
                res.ev()
                res.seen("ragged-bool-range", n, w0 == 0, sc.label)
                if st == "ok" and out:
                    res.count("ragged-bool-range:accepted")
                    want = bytearray(mem_before)
                    for k, v in enumerate(vals):
                        b_ = 32 * w0 + k
                        want[b_ // 8] = (want[b_ // 8] | (1 << (b_ % 8))) if v else (want[b_ // 8] & ~(1 << (b_ % 8)) & 0xFF)
                    others = {k_: v_ for k_, v_ in prj.snapshot().items() if k_ != t.full_name and v_ != before[k_] and prj.find(k_) is not None and prj.find(k_).data is not t.data}
                    if bytes(t.data) != bytes(want) or others:
                        res.violation("ragged-bool-range:collateral-change", f"write({txt!r}, <{n} BOOLs>) reported success; the array holds {bytes(t.data).hex()[:80]}, it was {mem_before.hex()[:80]} and "
                                                                             f"only BOOLs {32 * w0}..{32 * w0 + n - 1} were addressed (expected {bytes(want).hex()[:80]}); other tags changed: {sorted(others)[:3]} ({sc.label})",
                                      {"request": txt, "config": sc.label})
                        t.data[:] = mem_before
                else:
                    res.count("ragged-bool-range:refused")
                    if bytes(t.data) != mem_before:
                        res.dont_care("ragged-bool-range:refused-but-memory-changed")
                        t.data[:] = mem_before
                dev.write_journal.clear()
            # ---- two controllers in one process (see C01): a write through one driver changes that driver's controller, at the
            # addressed location, and nothing in the other controller - also for tags both controllers call by the same name
            if pi % 5 == 2 and not sc.micro:
                from vlib import refcodec as rc2
                cfgB = rng.choice([c for c in CONFIGS if not c[2] and c[0] != cfg[0]])
                prjB = rpj.generate_project(rng, "small", fw=cfgB[1], micro800=False)
                plain = [t for t in prj.user_tags(with_programs=False) if t.kind == "user" and ":" not in t.name]
                shared = [rpj.add_array_tag(prjB, rng, t.name, rng.choice(["INT", "REAL", "LINT", "DINT"]), rng.choice([3, 10, 50]))
                          for t in rng.sample(plain, min(4, len(plain))) if prjB.find(t.name) is None]
                scB = LogixScenario(rng, config=cfgB, project=prjB, bench=sc.b, host="192.168.1.237")
                res.count("two-controller-scenarios")
                if not scB.ok():
                    res.ev()
                    res.violation("two-plc:open-failed", f"a second LogixDriver for another controller ({scB.label}) failed to open while the first ({sc.label}) is open: {scB.opened!r:.200}", None)
                else:
                    for ci in range(12):
                        cur, other = (sc, scB) if rng.random() < 0.5 else (scB, sc)
                        tg = None
                        if shared and rng.random() < 0.7:
                            tg = cur.prj.find(rng.choice(shared).name)
                        r = logixreq.attach_value(logixreq.gen_request(cur.prj, rng, cur.conn_size, for_write=True, tag=tg), rng)
                        if r.kind == "value" and r.dtype.kind == "struct" and (any(m.name.startswith("__") for m in r.dtype.members) or getattr(r.dtype, "overlapped", False)):
                            continue
                        snap_other = other.prj.snapshot()
                        st, out = cur.b.call("write", cur.drv.write, r.text, r.value)
                        cur.dev.finish_transfers()
                        res.ev()
                        res.seen("two-plc", cur is scB, r.shape, tg is not None)
                        if st != "ok" or not out:
                            res.violation("two-plc:valid-write-fails", f"write({r.text!r}, {r.value!r:.60}) -> {out!r:.200} ({cur.label}; other controller {other.label} open in the same process)", None)
                            continue
                        if other.prj.snapshot() != snap_other:
                            res.violation("two-plc:write-changed-the-other-controller", f"write({r.text!r}) through the driver of {cur.label} changed memory of the other controller ({other.label})", None)
                        st, t = cur.b.call("read", cur.drv.read, r.text)
                        want = logixreq.expected_written(r)
                        if st != "ok" or not t or not rc2.values_equal(r.desc(), want, t.value):
                            res.violation("two-plc:read-back-differs", f"write({r.text!r}, {r.value!r:.60}) succeeded but read() then returns {t!r:.160}; expected {want!r:.100} ({cur.label})", None)
                    cur = None
                    scB.dev.finish_transfers()
                scB.close()
            sc.close()
        except ScenarioDead:
            continue
    return res


def _struct_covers(reqs, tname, off):
    """a whole-structure write legitimately rewrites the unmapped bits of a hidden BOOL host"""
    for r in reqs:
        if r.tag.full_name == tname and r.kind == "value" and r.dtype.kind == "struct":
            for lo, hi in r.byte_ranges():
                if lo <= off < hi:
                    return True
    return False
