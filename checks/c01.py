"""C01 - tag reads return exactly what the controller holds."""
from vlib.bench import ScenarioDead
from vlib import common, logixreq
from vlib import refproject as rpj
from vlib.logixbench import CONFIGS, LogixScenario

LEVEL = "exploration"
SHARDS = {"quick": 8, "thorough": 16}
TIMEOUT = {"quick": 900, "thorough": 3000}
MIN_EVALUATIONS = {"quick": 20000, "thorough": 20000}  # fewer oracle evaluations than this means the workload collapsed: inconclusive
RULE = ("random controller projects (atomic tags of every Logix type, 1-3 dim arrays, BOOL arrays as DWORDs, UDTs nested <=3 with packed BOOLs "
        "on hidden hosts, string types of capacity 1..4100, program-scoped tags, aliases, module tags) x random memory images x controller "
        "configurations {fw 16,17,18,20,21,24,32, Micro800 at fw 12 / 21 / 22 (empty route only)} x {4000-byte, 500-byte connection} x target "
        "reply policy {full, random, 1-8 byte fragments}; every fourth project is read through a second driver (init_tags=False) that shares the "
        "first one's tag list; every fifth project a second driver in the same process talks to ANOTHER controller (other project, other firmware) holding tags of "
        "the same names with other types / instance ids and a structure type of the same NAME that is 8 bytes in one controller and 120 in the other (`sized_q{4}` / `sized_q{100}` read in turn), calls interleaved - each driver answers for its own controller; each read() call carries 1-25 requests in the documented syntax (base, [i..], {n}, [i]{n}, member paths through arrays of "
        "structs, .bit, BOOL-array [i] / {n} / [i]{n}, BOOL members, strings, whole structs, duplicates) with element counts aimed at the "
        "byte windows around the connection size; every returned Tag is compared with the reference interpretation of the target's memory "
        "(value, type string, name, truthiness). distinct = (request shape, element type kind, transport path taken per target log, config) evaluated")
ASSUMPTIONS = [
    "reference target and project model per DESIGN.md 4.0 / Appendix A (Logix 5000 Data Access); BOOL true may be any non-zero byte",
    "string LEN fields of the memory image are within capacity; index lists always name every dimension; reads of zero requests are not generated",
    "REAL/LREAL compared by stored bit pattern, NaN == NaN",
]
ANCHORS = [
    ("pycomm3/logix_driver.py", "LogixDriver._parse_tag_request"), ("pycomm3/logix_driver.py", "LogixDriver._read_build_multi_requests"),
    ("pycomm3/logix_driver.py", "LogixDriver._read_build_single_request"), ("pycomm3/logix_driver.py", "LogixDriver._send_read_fragmented"),
    ("pycomm3/packets/util.py", "parse_read_reply"), ("pycomm3/custom_types.py", "StructTag._decode"),
    ("pycomm3/custom_types.py", "FixedSizeString._decode"), ("pycomm3/logix_driver.py", "LogixDriver.read"),
    ("pycomm3/packets/logix.py", "MultiServiceResponsePacket._parse_reply"), ("pycomm3/logix_driver.py", "_tag_return_size"),
]


def path_class(dev, before):
    """which transport paths the target executed for this call"""
    kinds = set()
    for kind, embedded, n in dev.reads_executed[before:]:
        kinds.add(("multi-" if embedded else "") + kind)
    return tuple(sorted(kinds))


def window_class(nbytes, conn):
    d = nbytes - conn
    if abs(d) <= 64:
        return f"conn{d // 8 * 8:+d}"
    return "small" if nbytes < conn else "large"


def check_read_call(res, sc, reqs, tags_out, key_prefix=""):
    """compare the result of one read() call with the expectations; returns number of failing requests"""
    bad = 0
    n = len(reqs)
    if n == 1:
        if isinstance(tags_out, list):
            res.violation(key_prefix + "shape", f"read() with one request returned a list: {tags_out!r:.160}", {"requests": [r.text for r in reqs]})
            return 1
        tags_out = [tags_out]
    elif not isinstance(tags_out, list) or len(tags_out) != n:
        res.violation(key_prefix + "shape", f"read() with {n} requests returned {type(tags_out).__name__} of length {len(tags_out) if hasattr(tags_out, '__len__') else '?'}",
                      {"requests": [r.text for r in reqs]})
        return 1
    for r, t in zip(reqs, tags_out):
        res.ev()
        ok, want = r.value_equal(getattr(t, "value", None))
        cfg = f"{sc.label}"
        wit = {"request": r.text, "config": cfg, "conn_size": sc.conn_size, "tag_type": r.tag.dtype.name, "dims": r.tag.dims, "bytes": r.nbytes(),
               "n_requests": n, "target": {"read_frag": sc.dev.read_frag, "fw": sc.fw, "micro800": sc.micro}}
        if not t:
            bad += 1
            res.violation(f"{key_prefix}read-fails:{r.shape.split(':')[-1]}:{window_class(r.nbytes(), sc.conn_size) if n == 1 else 'multi'}",
                          f"read({r.text!r}) [{n} requests, {r.nbytes()} data bytes, {cfg}, connection {sc.conn_size}] -> {t!r:.200}; controller holds {want!r:.100}", wit)
            continue
        if not ok:
            bad += 1
            res.violation(f"{key_prefix}wrong-value:{r.shape.split(':')[-1]}", f"read({r.text!r}) [{cfg}] value {t.value!r:.140} != controller's {want!r:.140}", wit)
        elif t.type != r.type_string():
            bad += 1
            res.violation(f"{key_prefix}wrong-type-string:{r.kind}", f"read({r.text!r}) type {t.type!r}, documented {r.type_string()!r}", wit)
        elif t.tag != r.name_without_count:
            bad += 1
            res.violation(f"{key_prefix}wrong-tag-name", f"read({r.text!r}) returned Tag.tag {t.tag!r}", wit)
        elif t.error is not None:
            bad += 1
            res.violation(f"{key_prefix}truthy-with-error", f"read({r.text!r}) -> {t!r:.200}", wit)
    return bad


def run(ctx):
    res = common.Result("C01")
    rng = ctx.rng()
    quick = ctx.quick
    nproj = 60 if quick else 500
    for pi in range(nproj):  # WRAPPED
        try:
            cfg = CONFIGS[(pi * ctx.nshards + ctx.shard) % len(CONFIGS)]
            size = rng.choice(["small", "small", "medium", "medium", "large", "fixture"])
            project_, bigbits = None, None
            if size != "fixture" and pi % 6 == 1:
                # a BOOL array of more than 65535 BOOLs (2100 DWORDs): element counts and indices beyond 16 bits are legal for it
                project_ = rpj.generate_project(rng, size, fw=cfg[1], micro800=cfg[2])
                bigbits = rpj.add_array_tag(project_, rng, "BigBits_q", "DWORD", 2100)
            sized_a = None
            if pi % 5 == 3 and not cfg[2]:
                # for the two-controller block below: a structure type that the OTHER controller also defines, under the same name,
                # with another size
                if project_ is None:
                    project_ = rpj.generate_project(rng, "medium" if size == "fixture" else size, fw=cfg[1], micro800=False)
                _, sized_a = rpj.add_struct_tag(project_, rng, "Sized_q", [("a", "INT", 0), ("b", "DINT", 0)], "sized_q", dims=(4,))
            sc = LogixScenario(rng, size=size, config=cfg, project=project_)
            res.count("projects")
            res.count(f"config:{sc.label}")
            if not sc.ok():
                res.ev()
                res.violation("open-failed", f"LogixDriver.open() against a conforming controller ({sc.label}, {len(sc.prj.user_tags())} tags) -> {sc.opened!r:.300}",
                              {"config": sc.label, "log": [v[:3] for v in sc.b.log.violations[:3]]})
                sc.close()
                continue
            # every fourth project is read through a second driver that shares the uploaded tag list (docs/getting_started.rst)
            if pi % 4 == 2:
                res.ev()
                if sc.use_second_driver():
                    res.count("second-driver-projects")
                else:
                    res.violation("second-driver-open-failed", f"a second LogixDriver(init_tags=False) sharing the tag list failed to open ({sc.label})", {"config": sc.label})
            ncalls = 20 if quick else 40
            for ci in range(ncalls):
                if ci in (4, 11) and rng.random() < 0.6:
                    # the accessors are views: evaluating them between reads (a JSON export of the tag list, a look at a definition)
                    # leaves the driver as it was
                    def look(drv=sc.drv):
                        import json as _json
                        _json.dumps(drv.tags_json)
                        return len(drv.data_types), drv.info.get("name"), drv.revision_major, len(drv.tags)
                    sc.b.call("accessors", look)
                    res.count("accessor-evaluations-between-reads")
                k = rng.choice([1, 1, 1, 2, 3, 5, 8, 12, 25])
                reqs = [logixreq.gen_request(sc.prj, rng, sc.conn_size) for _ in range(k)]
                if bigbits is not None and ci % 3 == 0:
                    reqs.append(logixreq.gen_request(sc.prj, rng, sc.conn_size, tag=bigbits))
                    k += 1
                dense = sc.large and sc.fw >= 21 and not sc.micro   # symbol-instance addressing on a 4000-byte connection: ~12 bytes per request
                if ci == ncalls - 1 and (dense or pi % 3 == 0):
                    # "any number of tags in one call": hundreds of small requests - more than 255 services in one Multiple Service
                    # Packet where requests are dense, many packets on a 500-byte connection
                    k = rng.choice([300, 520, 700]) if dense else rng.choice([130, 257, 300, 520])
                    reqs = []
                    for _ in range(20 * k):
                        r_ = logixreq.gen_request(sc.prj, rng, sc.conn_size)
                        if r_.nbytes() <= 8 and (not dense or (r_.tag.program is None and r_.text == r_.tag.full_name)):
                            reqs.append(r_)
                            if len(reqs) == k:
                                break
                    k = len(reqs)
                    if not reqs:
                        continue
                    res.count("bulk-read-calls")
                if k > 2 and rng.random() < 0.3:
                    reqs[rng.randrange(k)] = reqs[0]  # duplicates
                before = len(sc.dev.reads_executed)
                st, out = sc.b.call("read", sc.drv.read, *[r.text for r in reqs])
                if st != "ok":
                    res.ev()
                    res.violation(f"read-raises:{type(out).__name__}", f"read({[r.text for r in reqs]!r:.200}) raised {out!r:.200} ({sc.label})",
                                  {"requests": [r.text for r in reqs], "config": sc.label})
                    continue
                check_read_call(res, sc, reqs, out)
                pc = path_class(sc.dev, before)
                for r in reqs:
                    res.seen(r.shape, r.dtype.kind if r.kind == "value" else r.kind, pc, sc.label, window_class(r.nbytes(), sc.conn_size))
                res.count("read_calls")
                res.count("requests", k)
                for kind in pc:
                    res.count(f"path:{kind}")
                if pi == 0 and ci < 3:
                    res.sample({"config": sc.label, "requests": [r.text for r in reqs][:4], "result": repr(out)[:300], "paths": pc})
            sc.dev.finish_transfers()
            # ---- two controllers in one process: a second driver talks to ANOTHER controller (other project, other firmware) that has
            # tags of the same names with other types / instance ids; calls are interleaved.  Each driver answers for its own controller:
            # nothing a driver learnt may live in state shared by the class, the module or the process.
            if pi % 5 == 3 and not sc.micro:
                cfgB = rng.choice([c for c in CONFIGS if not c[2] and c[0] != cfg[0]])
                prjB = rpj.generate_project(rng, "small", fw=cfgB[1], micro800=False)
                shared = []
                plain = [t for t in sc.prj.user_tags(with_programs=False) if t.kind == "user" and ":" not in t.name and t.name != "sized_q"]
                for t in rng.sample(plain, min(4, len(plain))):
                    if prjB.find(t.name) is None:
                        shared.append(rpj.add_array_tag(prjB, rng, t.name, rng.choice(["INT", "REAL", "LINT", "DINT"]), rng.choice([3, 10, 50])))
                sized_b = None
                if sized_a is not None:
                    # the same type NAME, laid out differently and 15 times larger: 100 elements are far beyond either connection size
                    _, sized_b = rpj.add_struct_tag(prjB, rng, "Sized_q", [("a", "INT", 0), ("b", "DINT", 0), ("pad", "DINT", 27), ("z", "REAL", 0)], "sized_q", dims=(100,))
                scB = LogixScenario(rng, config=cfgB, project=prjB, bench=sc.b, host="192.168.1.237")
                res.count("two-controller-scenarios")
                if not scB.ok():
                    res.ev()
                    res.violation("two-plc:open-failed", f"a second LogixDriver for another controller ({scB.label}) failed to open while the first ({sc.label}) is open: {scB.opened!r:.200}", None)
                else:
                    if sized_a is not None and sized_b is not None:
                        # sizes are per controller: the small definition first, then the large one through the other driver (what a
                        # driver learnt about "Sized_q" may not be found again under that name by the other)
                        for cur, tg_ in ((sc, sized_a), (scB, sized_b), (sc, sized_a)):
                            n_ = tg_.elements
                            rq = logixreq.Req(f"sized_q{{{n_}}}", tg_, tg_.dtype, 0, n_, True, "value", avail=n_, shape="[]{n}")
                            st, out = cur.b.call("read", cur.drv.read, rq.text)
                            res.seen("two-plc-same-type-name", cur is scB)
                            if st != "ok":
                                res.ev()
                                res.violation(f"two-plc:read-raises:{type(out).__name__}", f"read({rq.text!r}) raised {out!r:.200} ({cur.label}, second controller {scB.label})", None)
                                continue
                            check_read_call(res, cur, [rq], out, key_prefix="two-plc:")
                            cur.dev.finish_transfers()
                    for ci in range(16):
                        cur = rng.choice([sc, scB])
                        reqs = [logixreq.gen_request(cur.prj, rng, cur.conn_size) for _ in range(rng.choice([1, 2, 4]))]
                        for t in shared:   # the names both controllers know
                            if rng.random() < 0.6:
                                tg = cur.prj.find(t.name)
                                if tg is not None:
                                    reqs.append(logixreq.gen_request(cur.prj, rng, cur.conn_size, tag=tg))
                        st, out = cur.b.call("read", cur.drv.read, *[r.text for r in reqs])
                        res.seen("two-plc", cur is scB, len(reqs))
                        if st != "ok":
                            res.ev()
                            res.violation(f"two-plc:read-raises:{type(out).__name__}", f"read({[r.text for r in reqs]!r:.200}) raised {out!r:.200} ({cur.label}, second controller {scB.label})", None)
                            continue
                        check_read_call(res, cur, reqs, out, key_prefix="two-plc:")
                    scB.dev.finish_transfers()
                scB.close()
            sc.close()
        except ScenarioDead:
            continue
    return res
