"""C13 - replies are classified by their status words; bad replies cannot pass or crash.
The reference target's reply policy overrides status / extended status of chosen replies, replaces replies by
header-only encapsulation errors, truncates or corrupts them; the oracle watches the public calls' results."""
from vlib.bench import ScenarioDead
from vlib import common
from vlib import refencap as enc
from vlib import refproject as rpj
from vlib.logixbench import LogixScenario

LEVEL = "exploration"
SHARDS = {"quick": 8, "thorough": 16}
TIMEOUT = {"quick": 900, "thorough": 3000}
MIN_EVALUATIONS = {"quick": 4000, "thorough": 4000}  # fewer oracle evaluations than this means the workload collapsed: inconclusive
RULE = ("[also: discover() against 1-5 UDP ListIdentity replies drawn from {ok, non-zero encapsulation status with an intact item, cut short, header-only} - exactly "
        "the ok ones are listed] "
"request kinds {generic connected / UCMM / Unconnected Send - untyped and with a data type the reply is decoded with -, single read, single write, bit write (read-modify-write), 3-fragment read "
        "and write with the fault on each fragment position, SLC/PCCC read and write, multi-service read/write with every per-service status vector of length <= 4 over "
        "{0,4,5,6,0xFF}, register session, list identity, symbol-list page, template attribute and template read during upload} x general "
        "status 0..255 x extended-status size {0,1,2 words} (table values + random) -> truthy exactly for status 0 (6 only for continuing "
        "services; connected generic messages with Get_Instance_Attribute_List 0x55 / Read Tag Fragmented 0x52 answered 'status 6 + a page' are truthy and carry the page), otherwise falsy with non-empty error text naming the status (table text or hex code, extended text when the pair is in "
        "the table), error replies with and without data after the status words (1..40 bytes); header-only encapsulation errors "
        "{1,2,3,0x64,0x65,0x69} and encapsulation status {1,4,0x66,0x100,0x10000,0x80000000,0xFFFFFFFF} on replies that keep their body; every truncation length of each kind's valid reply; seeded random "
        "byte corruptions; multi-service replies whose service count / offset table do not match the replies that follow: public calls may raise only library exceptions and a reply too short for its status words is never a success. "
        "distinct = (request kind, fault class, status | truncation length class) evaluated")
ASSUMPTIONS = [
    "status 6 on Get_Attribute_List (0x03), Multiple Service Packet (0x0A) and Write Tag Fragmented (0x53) replies: 'legitimately continues' is arguable, not judged",
    "for truncated / corrupted replies only the exception type and 'not a success when the status words are missing' are judged",
    "encapsulation-error text: only non-emptiness is judged",
]
ANCHORS = [
    ("pycomm3/packets/base.py", "ResponsePacket.is_valid"), ("pycomm3/packets/base.py", "ResponsePacket.error"),
    ("pycomm3/packets/ethernetip.py", "SendUnitDataResponsePacket.is_valid"), ("pycomm3/packets/ethernetip.py", "SendRRDataResponsePacket.is_valid"),
    ("pycomm3/packets/ethernetip.py", "SendUnitDataResponsePacket._parse_reply"), ("pycomm3/packets/ethernetip.py", "SendRRDataResponsePacket._parse_reply"),
    ("pycomm3/packets/util.py", "get_service_status"), ("pycomm3/packets/util.py", "get_extended_status"),
    ("pycomm3/packets/logix.py", "ReadTagFragmentedResponsePacket._parse_reply"), ("pycomm3/packets/logix.py", "MultiServiceResponsePacket._parse_reply"),
    ("pycomm3/logix_driver.py", "LogixDriver._send_requests"), ("pycomm3/cip/services.py", "Services.from_reply"),
]
KINDS = ["gm_conn", "gm_ucmm", "gm_usend", "read1", "write1", "rmw", "readfrag", "writefrag", "multi-read", "multi-write", "slc-read", "slc-write",
         "gm_conn_typed", "gm_ucmm_typed"]   # generic messages whose reply data is decoded with a supplied data type
CONTINUING_DONT_CARE = {0x03, 0x0A, 0x53}


def project(rng):
    b = rpj.ProjectBuilder(rng, fw=32)
    u = b.udt("Udt13", [("a", "DINT", 0), ("f", "BOOL", 0), ("r", "REAL", 0)])
    for n in ("d1", "d2", "d3", "d4"):
        b.tag(n, "DINT")
    b.tag("u1", u)
    b.tag("arr", "DINT", (3000,))
    return b.done()


def do(sc, kind, rng):
    d, b = sc.drv, sc.b
    if kind == "gm_conn":
        return b.call(kind, d.generic_message, service=0x01, class_code=0x64, instance=1)
    if kind == "gm_ucmm":
        return b.call(kind, d.generic_message, service=0x0E, class_code=0x01, instance=1, attribute=1, connected=False)
    if kind == "gm_usend":
        return b.call(kind, d.generic_message, service=0x0E, class_code=0x01, instance=1, attribute=1, connected=False, unconnected_send=True)
    if kind in ("gm_conn_typed", "gm_ucmm_typed"):
        import pycomm3
        # Identity attribute 1 (vendor id) decoded as UINT: on a refusal the bytes after the status words are NOT a UINT to decode
        return b.call(kind, d.generic_message, service=0x0E, class_code=0x01, instance=1, attribute=1, connected=kind == "gm_conn_typed", data_type=pycomm3.UINT)
    if kind == "slc-read":
        return b.call(kind, d.read, "N7:3")
    if kind == "slc-write":
        return b.call(kind, d.write, ("N7:4", 5))
    if kind == "read1":
        return b.call(kind, d.read, "d1")
    if kind == "write1":
        return b.call(kind, d.write, "d2", 7)
    if kind == "rmw":
        return b.call(kind, d.write, "d3.5", True)
    if kind == "readfrag":
        return b.call(kind, d.read, "arr{2600}")
    if kind == "writefrag":
        return b.call(kind, d.write, "arr{2600}", [1] * 2600)
    if kind == "multi-read":
        return b.call(kind, d.read, "d1", "d2", "u1", "d4")
    if kind == "multi-write":
        return b.call(kind, d.write, ("d1", 1), ("d2", 2), ("d3", 3), ("d4", 4))
    raise ValueError(kind)


def service_of(kind):
    return {"gm_conn": 0x01, "gm_ucmm": 0x0E, "gm_usend": 0x0E, "read1": 0x4C, "write1": 0x4D, "rmw": 0x4E, "readfrag": 0x52, "writefrag": 0x53,
            "multi-read": 0x0A, "multi-write": 0x0A, "slc-read": 0x4B, "slc-write": 0x4B, "gm_conn_typed": 0x0E, "gm_ucmm_typed": 0x0E}[kind]


class SLCScenario:
    """SLCDriver opened against the reference SLC target; same surface as LogixScenario as far as this check uses it"""

    def __init__(self, rng):
        import pycomm3
        from vlib.bench import Bench
        from vlib import refslc, reftarget as rt
        self.rng, self.label = rng, "slc"
        self.b = Bench(rng)
        self.dev = refslc.SLCDevice(rt.Identity(name="1747-L552/C SLC 5/05"), rng, self.b.log, refslc.DataTable.random(rng))
        self.dev.finish_transfers = lambda: None
        self.target = rt.RefTarget(rng, front=self.dev, routes={((1, 0),): self.dev}, policy=rt.Policy(), log=self.b.log)
        self.b.set_target(self.target)
        self.drv = pycomm3.SLCDriver(self.b.host)
        self.opened = self.b.call("open", self.drv.open)
        self.warm = self.b.call("read", self.drv.read, "N7:0")  # SLCDriver opens its CIP connection lazily, on the first request

    def ok(self):
        return self.opened[0] == "ok" and bool(self.opened[1]) and self.warm[0] == "ok" and bool(self.warm[1])

    def close(self):
        try:
            self.b.call("close", self.drv.close)
        finally:
            self.b.close()


def truthy(out):
    if isinstance(out, list):
        return all(bool(t) for t in out)
    return bool(out)


def run(ctx):
    res = common.Result("C13")
    import pycomm3 as p
    rng = ctx.rng()
    quick = ctx.quick
    PycommError = p.PycommError
    SERVICE_STATUS, EXTEND_CODES = p.SERVICE_STATUS, p.EXTEND_CODES
    import json as _json
    import os as _os
    GOLD_STATUS = set(_json.load(open(_os.path.join(common.VERIF_DIR, "vlib", "data", "code_tables.json"))).get("general_status_codes", []))

    def fresh(kind=""):
        if kind.startswith("slc"):
            return SLCScenario(rng)
        sc = LogixScenario(rng, config=("fw32", 32, False, True), project=project(rng), bridge=False)   # faults are aimed at unrouted messages too
        sc.dev.read_frag = "full"
        return sc

    def expect_error_text(kind, status, ext, err, wit):
        if not isinstance(err, str) or not err.strip():
            res.violation(f"empty-error-text:{kind}", f"{kind}: refused with status {status:#x} ext {ext!r} but the error text is {err!r}", wit)
            return
        want = SERVICE_STATUS.get(status)
        if 0x30 <= status <= 0xCF and status not in GOLD_STATUS:
            # CIP defines no general status in 0x30-0xCF: whatever a table may hold for such a code is another layer's text (encapsulation
            # status 0x64 / 0x65 / 0x69), the error must name the status by its hex code
            if f"{status:02x}" not in err.lower():
                res.violation(f"error-text-lacks-hex-code:{kind}", f"{kind}: status {status:#x} (reserved range, no CIP text exists) -> error {err!r:.160} lacks the hex code", wit)
        elif want is None and status in GOLD_STATUS:
            res.violation(f"error-text-lacks-status:{kind}", f"{kind}: status {status:#x} -> error {err!r:.160}; the library had a text for this status at the pinned commit", wit)
        elif want is not None:
            if want not in err:
                res.violation(f"error-text-lacks-status:{kind}", f"{kind}: status {status:#x} -> error {err!r:.160}; expected the table text {want!r:.80}", wit)
        elif f"{status:02x}" not in err.lower():
            res.violation(f"error-text-lacks-hex-code:{kind}", f"{kind}: unknown status {status:#x} -> error {err!r:.160} lacks the hex code", wit)
        if len(ext) >= 1:
            ev = ext[0] if len(ext) == 1 else ext[0] | (ext[1] << 16)
            etxt = EXTEND_CODES.get(status, {}).get(ev)
            if etxt is not None and etxt not in err:
                res.violation(f"error-text-lacks-extended-status:{kind}", f"{kind}: status {status:#x} ext {ev:#x} -> error {err!r:.160}; expected {etxt!r}", wit)

    # ---- (i) status sweep ---------------------------------------------------------------------------------------------------------
    work = 0
    for kind in KINDS:
        work += 1
        if not ctx.mine(work):
            continue
        try:
            sc = fresh(kind)
            if not sc.ok():
                res.violation("open-failed", f"open -> {sc.opened!r:.200}", None)
                continue
            svc = service_of(kind)
            positions = [1] if kind not in ("readfrag", "writefrag") else [1, 2, 3]
            for pos in positions * (1 if quick else 5):
                for status in range(256):
                    ext_opts = [()]
                    tab = EXTEND_CODES.get(status, {})
                    for ev in list(tab)[:6]:
                        ext_opts.append((ev & 0xFFFF,) if ev <= 0xFFFF else (ev & 0xFFFF, ev >> 16))
                    ext_opts += [(rng.randrange(65536),), (rng.randrange(65536), rng.randrange(65536))]
                    if quick and status not in SERVICE_STATUS and status % 4:
                        ext_opts = ext_opts[:1] + ext_opts[-1:]
                    for ext in ext_opts:
                        cnt = {"n": 0}
                        # an error reply may carry data after its status words (CIP Vol 1, 2-4.2); it is an error all the same
                        # (lengths 1 and 3 too: bytes that cannot even be decoded as the data type a typed generic message asked for)
                        errdata = b"" if rng.random() < 0.6 else bytes(rng.choice([0, 0, rng.randrange(256)]) for _ in range(rng.choice([1, 1, 2, 3, 8, 20, 40])))

                        def force(rq, status=status, ext=ext, cnt=cnt, pos=pos, svc=svc, errdata=errdata):
                            if rq.service != svc or rq.embedded:
                                return None
                            cnt["n"] += 1
                            if cnt["n"] != pos:
                                return None
                            if status in (0, 6):
                                return None if status == 0 else (6, ext, b"")
                            return (status, ext, errdata)
                        if status == 6 and kind in ("readfrag",):
                            continue  # 6 is the normal 'more fragments follow' answer there
                        sc.dev.force_status = force
                        st, out = do(sc, kind, rng)
                        sc.dev.force_status = None
                        sc.dev.finish_transfers()
                        sc.b.log.violations.clear()
                        res.ev()
                        res.seen(kind, "status", status, len(ext), pos)
                        wit = {"kind": kind, "status": status, "ext": ext, "position": pos, "error_reply_data": errdata}
                        if st == "budget":
                            res.violation(f"nonterminating:{kind}", f"{kind} with status {status:#x}: {out}", wit)
                            raise ScenarioDead()
                        if st != "ok":
                            res.violation(f"error-status-raises:{kind}:{type(out).__name__}", f"{kind}: a well-formed reply with status {status:#x} ext {ext!r} made the call raise {out!r:.160} instead of returning a falsy result", wit)
                            continue
                        if status == 0:
                            if not truthy(out):
                                res.violation(f"clean-success-reported-as-failure:{kind}", f"{kind}: status 0 -> {out!r:.200}", wit)
                            continue
                        if status == 6 and svc in CONTINUING_DONT_CARE:
                            res.dont_care("status-6-on-arguably-continuing-service")
                            continue
                        if status == 0x1E and kind.startswith("multi") and errdata:
                            # 'embedded service error': the data IS the list of service replies, so random data decides each Tag
                            res.dont_care("status-0x1e-multi-service-with-random-reply-data")
                            continue
                        if truthy(out):
                            res.violation(f"error-status-reported-as-success:{kind}", f"{kind}: the controller answered general status {status:#x} (ext {ext!r}, service position {pos}) but the result is truthy: {out!r:.200}", wit)
                            continue
                        tags = out if isinstance(out, list) else [out]
                        if kind.startswith("multi"):
                            for t in tags:
                                if not t.error or not str(t.error).strip():
                                    res.violation(f"empty-error-text:{kind}", f"{kind}: whole packet refused with {status:#x}; Tag {t!r:.160}", wit)
                        else:
                            if kind in ("readfrag", "writefrag"):
                                if not tags[0].error:
                                    res.violation(f"empty-error-text:{kind}", f"{kind}: fragment {pos} refused with {status:#x}; Tag {tags[0]!r:.160}", wit)
                            else:
                                expect_error_text(kind, status, ext, tags[0].error, wit)
            sc.close()
        except ScenarioDead:
            continue

    # ---- "or 6, partial transfer, for the services that legitimately continue": a caller who pages through a symbol list or a large value
    # himself, with generic_message, gets each page as a success - status 6 with its data is not an error for Get_Instance_Attribute_List
    # (0x55) and Read Tag Fragmented (0x52), the two services the library itself continues on status 6
    work += 1
    if ctx.mine(work):
        try:
            sc = fresh("gm_conn")
            if sc.ok():
                for svc_, cls_, inst_, rqd_ in ((0x55, 0x6B, 0, b"\x02\x00\x01\x00\x02\x00"), (0x52, 0x6B, 1, b"\x01\x00\x00\x00\x00\x00")):
                    for _ in range(6 if quick else 40):
                        page_ = bytes(rng.getrandbits(8) for _ in range(rng.choice([4, 20, 21, 200, 400])))
                        sc.dev.force_status = lambda rq, s=svc_, pg=page_: (6, (), pg) if rq.service == s and not rq.embedded else None
                        st, out = sc.b.call("gm_conn_page", sc.drv.generic_message, service=svc_, class_code=cls_, instance=inst_, request_data=rqd_, connected=True)
                        sc.dev.force_status = None
                        sc.dev.finish_transfers()
                        sc.b.log.violations.clear()
                        res.ev()
                        res.seen("partial-transfer-page", svc_, len(page_) % 2)
                        if st != "ok" or not truthy(out) or out.value != page_:
                            res.violation("partial-transfer-page-not-a-success", f"connected generic_message(service={svc_:#x}) answered with status 6 (partial transfer) and a {len(page_)}-byte page -> {out!r:.200}; "
                                                                                 f"expected a truthy Tag carrying the page", {"service": svc_})
            sc.close()
        except ScenarioDead:
            pass

    # ---- per-service status vectors inside multi-service replies ----------------------------------------------------------------------
    vals = [0, 4, 5, 6, 0xFF] if quick else [0, 1, 4, 5, 6, 0x13, 0x1E, 0xFF]
    vectors = [(a, b_, c, d_) for a in vals for b_ in vals for c in vals for d_ in vals]
    for kind in ("multi-read", "multi-write"):
        work += 1
        if not ctx.mine(work):
            continue
        try:
            sc = fresh()
            if not sc.ok():
                continue
            for vec in vectors if not quick else vectors[::3]:
                cnt = {"n": 0}

                def force(rq, vec=vec, cnt=cnt):
                    if not rq.embedded:
                        return None
                    i = cnt["n"]
                    cnt["n"] += 1
                    s_ = vec[i] if i < len(vec) else 0
                    if s_ == 0:
                        return None
                    return (s_, (0x2105,) if s_ == 0xFF else (), b"")
                sc.dev.force_status = force
                st, out = do(sc, kind, rng)
                sc.dev.force_status = None
                sc.b.log.violations.clear()
                res.ev()
                res.seen(kind, "vector", vec)
                wit = {"kind": kind, "vector": vec}
                if st != "ok":
                    if st == "budget" or not isinstance(out, PycommError):
                        res.violation(f"foreign-exception:{kind}:{type(out).__name__}", f"{kind} with per-service statuses {vec} raised {out!r:.160}", wit)
                    continue
                if not isinstance(out, list) or len(out) != 4:
                    res.violation(f"shape:{kind}", f"{kind} with per-service statuses {vec} returned {out!r:.160}", wit)
                    continue
                for i, (s_, t) in enumerate(zip(vec, out)):
                    if (s_ == 0) != bool(t):
                        res.violation(f"per-service-status-misclassified:{kind}", f"{kind}: embedded service {i} answered status {s_:#x} (vector {vec}) but its Tag is {t!r:.160}", wit)
                    elif s_ != 0:
                        expect_error_text(kind, s_, (0x2105,) if s_ == 0xFF else (), t.error, wit)
            sc.close()
        except ScenarioDead:
            continue

    # ---- (ii)-(iv) header-only encapsulation errors, truncations, corruptions -----------------------------------------------------------
    faults = []
    for kind in KINDS:
        nrep = 3 if kind in ("readfrag", "writefrag") else 1
        for pos in range(1, nrep + 1):
            for est in (0x01, 0x02, 0x03, 0x64, 0x65, 0x69):
                faults.append((kind, pos, ("encap", est)))
            # any non-zero encapsulation status - also one the library has no text for - on a reply that still carries its body
            for est in (0x01, 0x04, 0x66, 0x100, 0x10000, 0x80000000, 0xFFFFFFFF):
                faults.append((kind, pos, ("encapfull", est)))
            for n in list(range(0, 80)) + [90, 120]:
                faults.append((kind, pos, ("trunc", n)))
            for r_ in range(12 if quick else 400):
                faults.append((kind, pos, ("corrupt", r_)))
            # an ERROR reply (general status forced by the target) cut at every length around its status words
            for n in list(range(36, 56)):
                faults.append((kind, pos, ("errtrunc", n)))
    # structural damage of a multi-service reply: service count and offset table that do not match the replies that follow
    for kind in ("multi-read", "multi-write"):
        for v in ("count+1", "count-1", "count0", "countmax", "off-beyond", "off-zero", "off-into-table", "cut-last-2", "cut-last-reply", "drop-offsets"):
            for r_ in range(1 if quick else 6):
                faults.append((kind, 1, ("mstruct", v)))
    sc = None
    for fi, (kind, pos, fault) in enumerate(faults):
        if not ctx.mine(fi):
            continue
        try:
            if sc is None or sc.b.dead or not getattr(sc.drv, "connected", False) or not sc.target.connections or isinstance(sc, SLCScenario) != kind.startswith("slc"):
                if sc is not None:
                    try:
                        sc.close()
                    except ScenarioDead:
                        pass
                sc = fresh(kind)
                if not sc.ok():
                    sc = None
                    continue
            state = {"n": 0, "orig": None}
            kinds_of_reply = "unit" if kind not in ("gm_ucmm", "gm_usend", "gm_ucmm_typed") else "rr"
            sock = getattr(sc.drv, "_sock", None)
            if sock is None or not hasattr(sock, "receive"):
                res.inconc("driver has no _sock.receive to inject short replies below the transport")
                break
            orig_receive = sock.receive

            if fault[0] == "errtrunc":
                est_ = rng.choice([0x04, 0x05, 0x08, 0xFF])
                eext = rng.choice([(), (0x2105,), (0x0001, 0x0002)])
                svc_ = service_of(kind)
                cnt_ = {"n": 0}

                def force_err(rq, est_=est_, eext=eext, svc_=svc_, cnt_=cnt_, pos=pos):
                    if rq.service != svc_ or rq.embedded:
                        return None
                    cnt_["n"] += 1
                    return (est_, eext, b"") if cnt_["n"] == pos else None
                sc.dev.force_status = force_err

            def mutate_frame(frame, fault=fault):
                if fault[0] == "errtrunc":
                    n = fault[1]
                    if n >= len(frame):
                        return frame
                    cut = frame[:n]
                    return cut[:2] + (n - 24).to_bytes(2, "little") + cut[4:]
                if fault[0] == "mstruct":
                    f_, v = bytearray(frame), fault[1]
                    if len(f_) < 62 or f_[46] != 0x8A:
                        return frame
                    res.count("multi-service-replies-damaged")
                    cnt_ = f_[50] | (f_[51] << 8)
                    offs = [f_[52 + 2 * i] | (f_[53 + 2 * i] << 8) for i in range(cnt_)]

                    def relen(x):
                        x[2:4] = (len(x) - 24).to_bytes(2, "little")
                        x[42:44] = (len(x) - 44).to_bytes(2, "little")
                        return bytes(x)
                    if v == "count+1":
                        f_[50:52] = (cnt_ + 1).to_bytes(2, "little")
                    elif v == "count-1":
                        f_[50:52] = (cnt_ - 1).to_bytes(2, "little")
                    elif v == "count0":
                        f_[50:52] = b"\x00\x00"
                    elif v == "countmax":
                        f_[50:52] = b"\xff\xff"
                    elif v == "off-beyond":
                        f_[52 + 2 * (cnt_ - 1):54 + 2 * (cnt_ - 1)] = (len(f_) - 50 + rng.choice([0, 1, 40])).to_bytes(2, "little")
                    elif v == "off-zero":
                        f_[54:56] = b"\x00\x00"
                    elif v == "off-into-table":
                        f_[52:54] = (3).to_bytes(2, "little")
                    elif v == "cut-last-2":
                        return relen(f_[:-2])
                    elif v == "cut-last-reply":
                        return relen(f_[:50 + offs[-1]])
                    elif v == "drop-offsets":
                        return relen(f_[:52])
                    return bytes(f_)
                if fault[0] == "encapfull":  # the complete reply, but its encapsulation status says the request failed
                    return frame[:8] + fault[1].to_bytes(4, "little") + frame[12:]
                if fault[0] == "encap":  # header-only encapsulation error reply
                    return frame[:2] + (0).to_bytes(2, "little") + frame[4:8] + fault[1].to_bytes(4, "little") + frame[12:24]
                if fault[0] == "trunc":
                    n = fault[1]
                    if n >= len(frame):
                        return frame
                    cut = frame[:n]
                    if n >= 24:
                        cut = cut[:2] + (n - 24).to_bytes(2, "little") + cut[4:]
                    return cut
                b_ = bytearray(frame)
                for _ in range(rng.choice([1, 1, 2, 4])):
                    i = rng.randrange(24, len(b_)) if len(b_) > 24 and rng.random() < 0.8 else rng.randrange(len(b_))
                    b_[i] = rng.randrange(256)
                return bytes(b_)

            def receive(*a, state=state, pos=pos, **k):
                frame = orig_receive(*a, **k)
                state["n"] += 1
                if state["n"] != pos:
                    return frame
                state["orig"] = frame
                return mutate_frame(frame)
            sock.receive = receive
            st, out = do(sc, kind, rng)
            sc.dev.force_status = None
            if getattr(sc.drv, "_sock", None) is sock:
                sock.receive = orig_receive
            sc.dev.finish_transfers()
            sc.b.log.violations.clear()
            res.ev()
            fl = fault[0] if fault[0] != "trunc" else f"trunc{min(fault[1], 60)}"
            res.seen(kind, fl, pos, fault[1] if fault[0] != "corrupt" else 0)
            wit = {"kind": kind, "position": pos, "fault": fault, "reply": state["orig"]}
            if st == "budget":
                res.violation(f"nonterminating:{kind}:{fault[0]}", f"{kind} with reply fault {fault}: {out}", wit)
                sc = None
                continue
            if st == "exc":
                if not isinstance(out, PycommError):
                    res.violation(f"foreign-exception:{kind}:{fault[0]}:{type(out).__name__}", f"{kind}: reply fault {fault} (reply #{pos}) made the public call raise {type(out).__name__}: {out!s:.140}", wit)
                elif fault[0] in ("encap", "encapfull"):
                    res.violation(f"encapsulation-error-raises:{kind}:{type(out).__name__}", f"{kind}: an encapsulation error {fault[1]:#x} ({fault[0]}) made the call raise {out!r:.140} instead of returning a falsy result", wit)
                continue
            if state["orig"] is None:
                continue
            status_off = 49 if kinds_of_reply == "unit" else 43
            if kind.startswith("slc"):
                status_off = 59  # the PCCC STS byte behind the requester id
            if fault[0] in ("encap", "encapfull"):
                if truthy(out):
                    res.violation(f"encapsulation-error-reported-as-success:{kind}:{fault[0]}", f"{kind}: encapsulation status {fault[1]:#x} ({'header only' if fault[0] == 'encap' else 'reply body intact'}) -> {out!r:.200}", wit)
                else:
                    for t in (out if isinstance(out, list) else [out]):
                        if hasattr(t, "error") and (not t.error or not str(t.error).strip()):
                            res.violation(f"empty-error-text:{kind}:encap", f"{kind}: encapsulation error {fault[1]:#x} -> {t!r:.160}", wit)
            elif fault[0] == "mstruct":
                v = fault[1]
                outs = out if isinstance(out, list) else [out]
                if len(outs) != 4:
                    res.violation(f"shape:{kind}:mstruct", f"{kind}: multi-service reply damaged ({v}) -> {out!r:.160} (4 Tags expected)", wit)
                else:
                    must_fail = {"count-1": [3], "count0": [0, 1, 2, 3], "cut-last-reply": [3], "drop-offsets": [0, 1, 2, 3], "cut-last-2": [3]}.get(v, [])
                    for i in must_fail:
                        if outs[i]:
                            res.violation(f"missing-service-reply-reported-as-success:{kind}:{v}", f"{kind}: the multi-service reply ({v}) holds no complete answer for request {i}, yet its Tag is {outs[i]!r:.160}", wit)
                            break
            elif fault[0] == "errtrunc":
                if truthy(out):
                    res.violation(f"truncated-error-reply-reported-as-success:{kind}", f"{kind}: an error reply cut to {fault[1]} bytes -> {out!r:.200}", wit)
            elif fault[0] == "trunc" and fault[1] < status_off and fault[1] < len(state["orig"]):
                if truthy(out):
                    res.violation(f"short-reply-reported-as-success:{kind}", f"{kind}: reply cut to {fault[1]} bytes (status word at offset {status_off - 1}) -> {out!r:.200}", wit)
        except ScenarioDead:
            sc = None
            continue
    if sc is not None:
        try:
            sc.close()
        except ScenarioDead:
            pass

    # ---- open / upload paths: register session, list identity, symbol pages, templates -------------------------------------------------------
    upl = []
    for what in ("register", "list_identity"):
        for est in (0x01, 0x02, 0x03, 0x64, 0x65, 0x69):
            upl.append((what, ("encap", est)))
        for n in list(range(0, 30)) + [40, 60]:
            upl.append((what, ("trunc", n)))
    for svc in (0x55, 0x03, 0x4C, 0x01):
        for status in [1, 2, 4, 5, 6, 8, 0x0A, 0x13, 0x1E, 0xFF] + [rng.randrange(256) for _ in range(4)]:
            for pos in (1, 2, 3):
                upl.append(("service", (svc, status, pos)))
        for n in list(range(24, 70, 3)):
            upl.append(("service-trunc", (svc, n)))
    for ui, (what, f) in enumerate(upl):
        if not ctx.mine(ui):
            continue
        try:
            sc2 = LogixScenario(rng, size="small", config=("fw32", 32, False, True), open_driver=False, bridge=False)
            state = {"n": 0}
            if what in ("register", "list_identity"):
                from pycomm3.socket_ import Socket
                sock2 = Socket(5.0)
                sc2.drv._sock = sock2
                orig2 = sock2.receive
                nth = 1 if what == "register" else 2

                def receive2(*a, state=state, f=f, nth=nth, what=what, **k):
                    frame = orig2(*a, **k)
                    state["n"] += 1
                    if state["n"] != nth:
                        return frame
                    if f[0] == "encap":
                        return frame[:2] + (0).to_bytes(2, "little") + (frame[4:8] if what != "register" else bytes(4)) + f[1].to_bytes(4, "little") + frame[12:24]
                    n = f[1]
                    cut = frame[:n]
                    if n >= 24:
                        cut = cut[:2] + (n - 24).to_bytes(2, "little") + cut[4:]
                    return cut
                sock2.receive = receive2
            elif what == "service":
                svc, status, pos = f

                def force(rq, svc=svc, status=status, pos=pos, state=state):
                    if rq.service != svc or rq.transport != "connected":
                        return None
                    state["n"] += 1
                    if state["n"] != pos:
                        return None
                    return None if status == 6 and svc in (0x55, 0x4C) and False else (status, (), b"")
                sc2.dev.force_status = force
            else:
                svc, n = f

                def mutate(info, frame, svc=svc, n=n, state=state):
                    if info.get("kind") != "unit" or info.get("service") != svc or state["n"]:
                        return frame
                    state["n"] = 1
                    if n >= len(frame):
                        return frame
                    cut = frame[:n]
                    return cut[:2] + (n - 24).to_bytes(2, "little") + cut[4:]
                sc2.target.policy.mutate_reply = mutate
            st, out = sc2.b.call("open", sc2.drv.open)
            res.ev()
            res.seen("open", what, f if what != "service-trunc" else (f[0], f[1] // 8))
            wit = {"what": what, "fault": f}
            if st == "budget":
                res.violation(f"nonterminating:open:{what}", f"open() with {what} fault {f}: {out}", wit)
            elif st == "exc" and not isinstance(out, PycommError):
                res.violation(f"foreign-exception:open:{what}:{type(out).__name__}", f"open() with {what} fault {f} raised {type(out).__name__}: {out!s:.140}", wit)
            elif st == "ok" and out and what == "register" and (f[0] == "encap" or f[1] < 12):
                res.violation("register-session-error-reported-as-success", f"open() returned {out!r} although RegisterSession was answered with {f}", wit)
            sc2.target.policy.mutate_reply = None
            sc2.dev.force_status = None
            try:
                sc2.b.call("close", sc2.drv.close)
            except ScenarioDead:
                pass
            sc2.b.close()
        except ScenarioDead:
            continue
    # ---- ListIdentity replies to the UDP broadcast of discover(): a reply with a non-zero encapsulation status - even with an intact
    # identity item - and a reply cut short are not successes: discover() lists exactly the devices that answered with status 0
    if ctx.shard in (1, 2):
        import pycomm3 as p_
        from vlib.bench import Bench
        from vlib import devices
        for rep in range(12 if ctx.quick else 60):
            b_ = Bench(rng)
            kinds_ = [rng.choice(["ok", "ok", "status", "status", "cut", "header-only"]) for _ in range(rng.randint(1, 5))]
            idents_ = [devices.random_identity(rng) for _ in kinds_]

            def udp_(data, addr, kinds_=kinds_, idents_=idents_):
                try:
                    h = enc.parse_header(data)
                except enc.EncapError:
                    return []
                if h["command"] != 0x63:
                    return []
                out = []
                for kd, idn in zip(kinds_, idents_):
                    fr = enc.build_frame(0x63, 0, (1).to_bytes(2, "little") + idn.list_identity_item(), context=h["context"])
                    if kd == "status":
                        fr = fr[:8] + rng.choice([1, 2, 3, 0x64, 0x65, 0x69, 0xFFFF]).to_bytes(4, "little") + fr[12:]
                    elif kd == "cut":
                        n_ = rng.randrange(24, len(fr) - 1)
                        fr = fr[:2] + (n_ - 24).to_bytes(2, "little") + fr[4:n_]
                    elif kd == "header-only":
                        fr = fr[:2] + b"\x00\x00" + fr[4:8] + (1).to_bytes(4, "little") + fr[12:24]
                    out.append(fr)
                return out
            b_.net.udp_handler = udp_
            st_, devs_ = b_.call("discover", p_.CIPDriver.discover)
            res.ev()
            res.seen("discover", tuple(sorted(set(kinds_))))
            good = [i_ for k_, i_ in zip(kinds_, idents_) if k_ == "ok"]
            if st_ != "ok":
                if not isinstance(devs_, PycommError):
                    res.violation(f"foreign-exception:discover:{type(devs_).__name__}", f"discover() with replies {kinds_} raised {devs_!r:.160}", {"kinds": kinds_})
            elif not isinstance(devs_, list) or sorted(str(d_.get("serial")) if isinstance(d_, dict) else repr(d_) for d_ in devs_) != sorted(f"{i_.serial:08x}" for i_ in good):
                # (whatever the list holds - an entry that is no identity dict, or one without a serial, is not one of the good devices)
                res.violation("discover-lists-a-reply-that-is-not-a-success", f"discover() with replies {kinds_} (serials of the status-0, complete ones: {[f'{i_.serial:08x}' for i_ in good]}) returned "
                              f"{[(d_.get('serial') if isinstance(d_, dict) else d_) for d_ in devs_] if isinstance(devs_, list) else devs_!r:.200}", {"kinds": kinds_})
            b_.close()
    res.sample({"kind": "read1", "forced": "general status 0x05, extended 0x0000", "expect": "falsy Tag whose error names status 0x05"})
    res.sample({"kind": "readfrag", "fault": "reply #2 cut to 30 bytes", "expect": "library exception or falsy Tag, never a foreign exception"})
    return res
