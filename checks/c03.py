"""C03 - one result per request, in request order, with failures isolated."""
from vlib.bench import ScenarioDead
from vlib import common, logixreq
from vlib import refcodec as rc
from vlib.logixbench import CONFIGS, LogixScenario

LEVEL = "exploration"
SHARDS = {"quick": 8, "thorough": 16}
TIMEOUT = {"quick": 900, "thorough": 3000}
MIN_EVALUATIONS = {"quick": 12000, "thorough": 12000}  # fewer oracle evaluations than this means the workload collapsed: inconclusive
RULE = ("read()/write() calls of 1-40 requests mixing VALID requests (judged as in C01/C02) with INVALID ones of exactly the classes the "
        "statement lists {unknown tag, unknown member (named or numeric), member of an atomic, index out of range (just beyond the dimension and at 255/256, "
        "65535/65536, 2^31, 2^32-1, 2^32, 10^20), count out of range (beyond the array, beyond 16 bits, negative), unencodable value, "
        "too-short value list (also a scalar / None for a {n} request), misaligned BOOL-array write, controller error status forced by the target (tabled and untabled general statuses, extended words inside / outside the library's tables, none, two)} (a third of the write calls also repeat one of their valid bit writes once or twice: each occurrence is a request of its own) at every position class (first/"
        "last/all/alternating/random), with sizes that spread the requests over several multi-service packets, fragmented transfers and "
        "bit-write groups, on every controller configuration; oracle: arity/shape (single Tag iff n=1), i-th Tag answers the i-th request "
        "(name, value), invalid -> falsy Tag with non-empty error and no exception, valid requests unaffected (values / memory), "
        "bool(Tag) == (value is not None and error is None); per project one read and one write of 2-6 tags whose Multiple Service Packet the controller refuses as a whole "
        "(one falsy Tag with an error per request, no exception); the request values handed to write() (incl. over-long lists) are unchanged after the call. A separate robustness census of undocumented shapes is tabulated, never judged. "
        "distinct = (op, n, invalid class, position class, config, packets used) evaluated")
ASSUMPTIONS = [
    "request shapes the documentation leaves undefined (bit of a REAL, {0}, {n} or index on a scalar, negative index, whitespace, bit >= width) are outside the judged calls",
    "a failed request's Tag.tag may or may not keep the {n} suffix (the statement constrains the name of successful results only)",
]
ANCHORS = [
    ("pycomm3/logix_driver.py", "LogixDriver._parse_requested_tags"), ("pycomm3/logix_driver.py", "LogixDriver._send_requests"),
    ("pycomm3/logix_driver.py", "LogixDriver.write"), ("pycomm3/logix_driver.py", "LogixDriver.read"),
    ("pycomm3/logix_driver.py", "LogixDriver._read_build_multi_requests"), ("pycomm3/logix_driver.py", "LogixDriver._write_build_multi_requests"),
    ("pycomm3/tag.py", "Tag.__bool__"), ("pycomm3/logix_driver.py", "LogixDriver._get_tag_info"),
]


class Bad:
    def __init__(self, text, cls, value=None):
        self.text, self.cls, self.value, self.label = text, cls, value, "INVALID"


def gen_invalid(sc, rng, for_write):
    prj = sc.prj
    tags = prj.user_tags()
    classes = ["unknown-tag", "unknown-member", "member-of-atomic", "index-out-of-range", "count-out-of-range", "forced-status", "numeric-member-of-structure"]
    if for_write:
        classes += ["unencodable-value", "unencodable-value", "too-short-list", "misaligned-bool-array", "bit-out-of-range", "unsized-value-for-count"]
    for _ in range(50):
        c = rng.choice(classes)
        if c == "unknown-tag":
            nm = "nosuch_" + "".join(rng.choice("abcdefghijklmnop") for _ in range(rng.choice([1, 5, 20])))
            if rng.random() < 0.3 and prj.programs:
                nm = f"Program:{rng.choice(sorted(prj.programs))}.{nm}"
            return Bad(nm, c, 1)
        t = rng.choice(tags)
        idx0 = "[" + ",".join("0" for _ in t.dims) + "]" if t.dims else ""
        if c == "unknown-member" and t.dtype.kind == "struct":
            return Bad(f"{t.full_name}{idx0}.NoSuchMember", c, 1)
        if c == "numeric-member-of-structure" and t.dtype.kind in ("struct", "string"):
            # a structure has no member (or bit) called "3": an unknown member like any other
            return Bad(f"{t.full_name}{idx0}.{rng.choice([0, 1, 3, 7, 31, 32, 100])}", c, rng.choice([True, False, 1, 0]))
        if c == "member-of-atomic" and t.dtype.kind == "atomic" and t.dtype.name not in ("DWORD",):
            return Bad(f"{t.full_name}{idx0}.member", c, 1)
        if c == "index-out-of-range" and t.dims and t.dtype.name != "DWORD":
            idx = [0] * len(t.dims)
            k = rng.randrange(len(t.dims))
            # just beyond the dimension, and far beyond it: element numbers that need a 16- or 32-bit path segment
            idx[k] = rng.choice([t.dims[k], t.dims[k] + 1, t.dims[k] + 100, max(t.dims[k], 255), max(t.dims[k], 256), max(t.dims[k], 65535), max(t.dims[k], 65536), 70000,
                                 1 << 31, (1 << 32) - 1, 1 << 32, (1 << 32) + 5, 10 ** 20])
            v = logixreq.gen_value_for(t.dtype, rng, overlong_strings=False)
            return Bad(f"{t.full_name}[{','.join(map(str, idx))}]", c, v)
        if c == "count-out-of-range" and t.dims and t.dtype.name != "DWORD" and rng.random() < 0.3:
            # far out of range: counts at and beyond what the 16-bit element-count field of the tag services can carry
            n = rng.choice([65535, 65536, 65537, 70000, 1 << 31, 1 << 32, 10 ** 20, -1, -1, -2, -20, -255, -65535, -65536, -(1 << 31)])
            n = max(n, t.elements + 1) if n > 0 else n   # (a negative count is out of range whatever the array's length)
            v = [logixreq.gen_value_for(t.dtype, rng, overlong_strings=False) for _ in range(3)]
            return Bad(f"{t.full_name}{{{n}}}", c, v)
        if c == "count-out-of-range" and t.dims and t.dtype.name != "DWORD" and t.dtype.size * (t.elements + 3) < 9000:
            n = t.elements + rng.choice([1, 2, 3])
            v = [logixreq.gen_value_for(t.dtype, rng, overlong_strings=False) for _ in range(n)]
            return Bad(f"{t.full_name}{{{n}}}", c, v)
        if c == "forced-status" and t.dtype.name != "DWORD":
            r = logixreq.gen_request(prj, rng, sc.conn_size, for_write=for_write, tag=t)
            if for_write:
                logixreq.attach_value(r, rng)
            b = Bad(r.text, c, r.value)
            b.tagname = t.full_name
            return b
        if c == "unencodable-value" and t.dtype.kind == "atomic" and t.dtype.name in logixreq.rpj.INT_ATOMS and not t.dims:
            return Bad(t.full_name, c, rng.choice([1 << 70, -(1 << 70), "text", None, 1.5, [1, 2]]) if rng.random() < 0.8 else {"a": 1})
        if c == "unencodable-value" and t.dtype.kind == "struct" and not t.dims:
            return Bad(t.full_name, c, rng.choice([5, "text", {"NoSuchMember": 1}, [1]]))
        if c == "unencodable-value" and t.dtype.kind == "string" and not t.dims:
            return Bad(t.full_name, c, rng.choice([5, 1.5, ["a"], "☃snowman"]))
        if c == "unsized-value-for-count" and t.dims and t.dtype.name != "DWORD" and t.elements >= 2 and t.dtype.kind == "atomic":
            # a {n} request needs n values: a scalar (or None) is a too-short value like any other - also when it is the only request
            # of the call or the target is a Micro800 (requests are then built one by one)
            n = rng.randint(2, min(t.elements, 12))
            return Bad(f"{t.full_name}{{{n}}}", c, rng.choice([5, 0, None, 1.5, True]))
        if c == "too-short-list" and t.dims and t.dtype.name != "DWORD" and t.elements >= 3:
            n = rng.randint(3, min(t.elements, 20))
            v = [logixreq.gen_value_for(t.dtype, rng, overlong_strings=False) for _ in range(n - rng.randint(1, 2))]
            return Bad(f"{t.full_name}{{{n}}}", c, v)
        if c == "bit-out-of-range" and t.dtype.name in ("SINT", "INT", "DINT") and not t.dims:
            # outcome (accepted as a no-op or refused) is not specified; only "no exception escapes" is judged
            b = Bad(f"{t.full_name}.{8 * t.dtype.size + rng.choice([0, 8, 33])}", c, rng.random() < 0.5)
            b.only_no_exception = True
            return b
        if c == "misaligned-bool-array" and t.dtype.name == "DWORD" and t.dims and t.dims[0] >= 2:
            i = rng.choice([1, 3, 16, 31, 33])
            return Bad(f"{t.full_name}[{i}]{{32}}", c, [True] * 32)
    return Bad("nosuch_tag_zz", "unknown-tag", 1)


CENSUS = ["{tag}.99", "{tag}{{0}}", "{tag}[-1]", " {tag}", "{tag} ", "{tag}[0]", "{tag}{{2}}", "{tag}.0.0", "{tag}[", "{tag}]", "{tag}{{x}}", "", "{tag}..", "Program:.{tag}"]


def run(ctx):
    res = common.Result("C03")
    rng = ctx.rng()
    quick = ctx.quick
    nproj = 30 if quick else 300
    # ---- the last sentence of the statement, on the Tag type itself: truthy exactly when value is not None and error is None - for
    # every value / error pair a caller can hold (falsy values are values; an empty error text is an error), however the Tag was built
    if ctx.shard == 0:
        import pycomm3
        T = pycomm3.Tag
        values = [None, 0, 0.0, False, "", [], {}, b"", 1, -1, True, "x", [0], {"a": None}, b"\x00", float("nan")]
        errors = [None, "", " ", "error", 0, False, [], "None"]
        for v in values:
            for e in errors:
                for how in ("positional", "keyword", "_make", "_replace"):
                    t = (T("tag", v, "DINT", e) if how == "positional" else T(tag="tag", value=v, type="DINT", error=e) if how == "keyword"
                         else T._make(("tag", v, "DINT", e)) if how == "_make" else T("tag", 5, "DINT", None)._replace(value=v, error=e))
                    res.ev()
                    res.seen("tag-truthiness", type(v).__name__, repr(e), how)
                    if bool(t) != (v is not None and e is None):
                        res.violation("tag-truthiness", f"bool(Tag(value={v!r}, error={e!r})) [{how}] is {bool(t)}; documented: value is not None and error is None", {"value": repr(v), "error": repr(e)})
    for pi in range(nproj):  # WRAPPED
        try:
            cfg = CONFIGS[(pi * ctx.nshards + ctx.shard) % len(CONFIGS)]
            sc = LogixScenario(rng, size=rng.choice(["small", "medium", "medium", "large", "fixture"]), config=cfg)
            res.count("projects")
            if not sc.ok():
                res.ev()
                res.violation("open-failed", f"LogixDriver.open() ({sc.label}) -> {sc.opened!r:.300}", {"config": sc.label})
                continue
            dev, prj = sc.dev, sc.prj
            for ci in range(16 if quick else 40):
                for_write = rng.random() < 0.45
                n = rng.choice([1, 1, 2, 2, 3, 5, 8, 12, 20, 40])
                pos = rng.choice(["first", "last", "all", "alternating", "random", "none"])
                items = []
                used_tags = set()
                for i in range(n):
                    bad = {"first": i == 0, "last": i == n - 1, "all": True, "alternating": i % 2 == 0, "random": rng.random() < 0.35, "none": False}[pos]
                    if bad:
                        items.append(gen_invalid(sc, rng, for_write))
                    else:
                        for _ in range(20):
                            r = logixreq.gen_request(prj, rng, sc.conn_size, for_write=for_write)
                            if not for_write or r.tag.full_name not in used_tags:
                                break
                        if for_write:
                            if r.tag.full_name in used_tags or (r.kind == "value" and r.dtype.kind == "struct" and any(m.name.startswith("__") for m in r.dtype.members)):
                                items.append(gen_invalid(sc, rng, for_write))
                                continue
                            used_tags.add(r.tag.full_name)
                            logixreq.attach_value(r, rng)
                        items.append(r)
                if for_write and rng.random() < 0.35:
                    # the same bit write more than once in one call (a caller's list with duplicates, a retry appended to the batch):
                    # every occurrence is a valid request of its own and gets its own, truthy, Tag
                    bits_ = [r for r in items if not isinstance(r, Bad) and r.kind == "bit"]
                    if bits_:
                        import copy as _cp
                        r0 = rng.choice(bits_)
                        for _ in range(rng.choice([1, 1, 2])):
                            items.insert(rng.randrange(len(items) + 1), _cp.copy(r0))
                        n = len(items)
                        res.count("write-calls-repeating-a-bit-write")
                forced = {getattr(b, "tagname", None): b for b in items if isinstance(b, Bad) and b.cls == "forced-status"}
                forced_names = set(forced) - {None}
                # a forced controller error must not hit a tag that a VALID request of the same call also addresses
                valid_tags = {r.tag.full_name for r in items if not isinstance(r, Bad)}
                if forced_names & valid_tags:
                    items = [it for it in items if not (isinstance(it, Bad) and it.cls == "forced-status" and it.tagname in valid_tags)]
                    forced_names -= valid_tags
                    if not items:
                        continue
                    n = len(items)
                # also statuses that have an extended-status table in the library combined with extended words the table lacks, with
                # no extended word at all, and statuses without any text
                stt = rng.choice([(0x0F, ()), (0x05, ()), (0xFF, (0x2107,)), (0x10, ()), (0x04, (0,)),
                                  (0xFF, (0x2115,)), (0xFF, ()), (0x05, (0x0002,)), (0x01, (0x0999,)), (0x1F, (0x7777,)), (0x04, (0x1234,)), (0x01, ()),
                                  (0x26, ()), (0x2A, (0x0001, 0x0002))])

                # the error may hit every service for that tag, or only the k-th one (e.g. a middle fragment of a fragmented transfer)
                def base_of(text):
                    t_ = text.split("{")[0]
                    parts = t_.split(".")
                    b_ = parts[0] + "." + parts[1] if t_.startswith("Program:") and len(parts) > 1 else parts[0]
                    return b_.split("[")[0]

                def shares_tag(nm):
                    return sum(1 for it in items if base_of(it.text) == nm) > 1
                fire_at = {nm: (0 if shares_tag(nm) else rng.choice([0, 0, 1, 2, 2, 3])) for nm in forced_names}
                seen_n, fired = {}, set()

                def inject(rq, loc, names=forced_names, stt=stt, fire_at=fire_at, seen_n=seen_n, fired=fired):
                    nm = loc.tag.full_name
                    if nm not in names:
                        return None
                    seen_n[nm] = seen_n.get(nm, 0) + 1
                    if fire_at[nm] in (0, seen_n[nm]):
                        fired.add(nm)
                        return stt
                    return None
                dev.inject_status = inject if forced_names else None
                packets_before = sc.b.log.counts.get("connected-messages", 0)
                if for_write:
                    args = [(it.text, it.value) for it in items]
                    import copy
                    before_vals = [copy.deepcopy(v) if isinstance(v, (list, dict)) else None for _, v in args]
                    st, out = sc.b.call("write", sc.drv.write, *args) if n > 1 or rng.random() < 0.5 else sc.b.call("write", sc.drv.write, args[0][0], args[0][1])
                    # the values belong to the caller (who may use the same list for the next request or the next call):
                    # write() may truncate a COPY of an over-long list, never the list it was given
                    for (txt_, v_), snap_ in zip(args, before_vals):
                        if snap_ is not None and v_ != snap_:
                            res.ev()
                            res.violation("write-modified-the-callers-value", f"write(({txt_!r}, <{type(v_).__name__} of {len(snap_)}>)) left the caller's object as {v_!r:.100} (was {snap_!r:.100})",
                                          {"request": txt_})
                            break
                else:
                    st, out = sc.b.call("read", sc.drv.read, *[it.text for it in items])
                dev.inject_status = None
                dev.finish_transfers()
                sc.b.log.violations.clear()
                packets = sc.b.log.counts.get("connected-messages", 0) - packets_before
                op = "write" if for_write else "read"
                res.count(f"{op}_calls")
                classes = sorted({it.cls for it in items if isinstance(it, Bad)})
                res.seen(op, min(n, 12), tuple(classes), pos, sc.label, min(packets, 6))
                wit = {"op": op, "requests": [(it.text, it.label if not isinstance(it, Bad) else it.cls) for it in items][:12], "config": sc.label, "n": n}
                res.ev()
                if st != "ok":
                    res.violation(f"{op}-raises:{type(out).__name__}:{classes[0] if classes else 'all-valid'}",
                                  f"{op}() with {n} requests (invalid classes {classes}) raised {out!r:.200} instead of returning Tags ({sc.label})", wit)
                    continue
                if n == 1:
                    if isinstance(out, (list, tuple)) and not hasattr(out, "_fields"):
                        res.violation("shape-single", f"{op}() with one request returned {type(out).__name__}", wit)
                        continue
                    outs = [out]
                else:
                    if not isinstance(out, list) or len(out) != n:
                        res.violation("shape-list", f"{op}() with {n} requests returned {type(out).__name__} of length {len(out) if hasattr(out, '__len__') else '?'}", wit)
                        continue
                    outs = out
                for i, (it, t) in enumerate(zip(items, outs)):
                    res.ev()
                    w2 = dict(wit, index=i, request=it.text, result=repr(t)[:200])
                    if not hasattr(t, "value") or not hasattr(t, "error"):
                        res.violation("not-a-tag", f"result {i} of {op}() is {t!r:.100}", w2)
                        continue
                    if bool(t) != (t.value is not None and t.error is None):
                        res.violation("truthiness-contract", f"bool({t!r:.160}) is {bool(t)}", w2)
                    if isinstance(it, Bad) and it.cls == "forced-status" and it.tagname not in fired:
                        res.dont_care("forced-status-did-not-fire")
                        continue
                    if isinstance(it, Bad) and getattr(it, "only_no_exception", False):
                        res.dont_care("bit-out-of-range-outcome:" + ("truthy" if t else "falsy"))
                        continue
                    if isinstance(it, Bad):
                        if t:
                            res.violation(f"invalid-request-truthy:{it.cls}", f"{op} request {it.text!r} ({it.cls}) in a call of {n} returned the truthy {t!r:.160}", w2)
                        elif not isinstance(t.error, str) or not t.error.strip():
                            res.violation(f"invalid-request-empty-error:{it.cls}", f"{op} request {it.text!r} ({it.cls}) -> falsy Tag with error {t.error!r}", w2)
                        if t.tag not in (it.text, it.text.split("{")[0]):
                            res.violation("result-order:name", f"result {i} answers {t.tag!r}, request {i} was {it.text!r}", w2)
                        continue
                    # VALID request: must be unaffected by its neighbours
                    if not t:
                        li_ = sc.drv.tags.get(it.tag.full_name) or {}
                        w2 = dict(w2, reference_type=f"{it.tag.dtype.name} ({it.tag.dtype.kind}) dims {list(it.tag.dims)} instance {it.tag.instance_id} kind {it.tag.kind}",
                                  uploaded_type=f"{li_.get('data_type_name')!r} ({li_.get('tag_type')}) dim {li_.get('dim')} instance {li_.get('instance_id')}")
                        res.violation(f"valid-request-fails-in-mixed-call:{op}:{classes[0] if classes else 'all-valid'}",
                                      f"{op} request {it.text!r} is valid but failed in a call of {n} (invalid classes {classes}, positions {pos}): {t!r:.200}", w2)
                        continue
                    if t.tag != it.name_without_count:
                        res.violation("result-order:name", f"result {i} carries tag {t.tag!r}; request {i} was {it.text!r} (expected name {it.name_without_count!r})", w2)
                        continue
                    if for_write:
                        want = logixreq.expected_written(it)
                        if not rc.values_equal(it.desc(), want, it.expected_value()):
                            res.violation("valid-write-not-applied-in-mixed-call", f"write request {it.text!r} reported success in a mixed call of {n} but the controller does not hold the value", w2)
                        if it.is_list or not isinstance(it.value, list):
                            if t.value is not it.value and t.value != it.value:
                                res.violation("result-order:value", f"write result {i} carries value {t.value!r:.80}, request {i} wrote {it.value!r:.80}", w2)
                    else:
                        eq, want = it.value_equal(t.value)
                        if not eq:
                            res.violation("result-order:value", f"read result {i} ({t.tag!r}) holds {t.value!r:.100}; the controller holds {want!r:.100} at request {i} ({it.text!r})", w2)
                        elif t.type != it.type_string():
                            res.violation("result-type", f"read result {i} type {t.type!r} != {it.type_string()!r}", w2)
                if pi == 0 and ci < 3:
                    res.sample({"op": op, "config": sc.label, "requests": wit["requests"][:5], "results": [repr(t)[:90] for t in outs[:5]], "connected_messages": packets})
            # ---- "controller error status" for the packet that carries the requests: a controller may refuse a Multiple Service Packet as a
            # whole (too busy, reply would not fit, service not supported in this state).  Then none of its requests can succeed: one
            # falsy Tag with a non-empty error per request, in order, and no exception.
            if not sc.micro:
                smalls = [t for t in prj.user_tags() if t.dtype.kind == "atomic" and not t.dims and t.kind == "user" and t.dtype.name != "BOOL"]
                if len(smalls) >= 2:
                    for for_write_ in (False, True):
                        picked_ = rng.sample(smalls, min(len(smalls), rng.choice([2, 3, 6])))
                        stt_ = rng.choice([0x02, 0x08, 0x11, 0x05, 0x1F, 0x0C])
                        dev.force_status = lambda rq, s=stt_: (s, (), b"") if rq.service == 0x0A and not getattr(rq, "embedded", False) else None
                        if for_write_:
                            st, out = sc.b.call("write", sc.drv.write, *[(t.full_name, 1) for t in picked_])
                        else:
                            st, out = sc.b.call("read", sc.drv.read, *[t.full_name for t in picked_])
                        dev.force_status = None
                        dev.finish_transfers()
                        sc.b.log.violations.clear()
                        res.ev()
                        op_ = "write" if for_write_ else "read"
                        res.seen("whole-packet-refused", op_, len(picked_), stt_)
                        if st != "ok":
                            res.violation(f"{op_}-raises:{type(out).__name__}:packet-refused", f"{op_}() of {len(picked_)} tags whose Multiple Service Packet the controller refused with {stt_:#x} raised {out!r:.200} ({sc.label})", None)
                        elif not isinstance(out, list) or len(out) != len(picked_):
                            res.violation("shape-list", f"{op_}() of {len(picked_)} tags (packet refused with {stt_:#x}) returned {out!r:.160}", None)
                        else:
                            for t_, tag_ in zip(picked_, out):
                                if tag_ or not isinstance(tag_.error, str) or not tag_.error.strip() or tag_.tag != t_.full_name:
                                    res.violation("packet-refused:request-not-failed-in-place", f"{op_}() of {[x.full_name for x in picked_]!r:.120} with the packet refused ({stt_:#x}): result for {t_.full_name!r} is {tag_!r:.160}", None)
                                    break
            # ---- robustness census (tabulated, never judged) --------------------------------------------------------------------
            if pi % 3 == 0:
                t0 = rng.choice(prj.user_tags())
                for pat in CENSUS:
                    txt = pat.format(tag=t0.full_name)
                    st, out = sc.b.call("read", sc.drv.read, txt)
                    outcome = "truthy" if st == "ok" and out else "falsy" if st == "ok" else f"raises-{type(out).__name__}"
                    res.dont_care(f"census:{pat.replace('{tag}', 'T')}:{outcome}")
            sc.close()
        except ScenarioDead:
            continue
    return res
