"""C12 - reply frames survive any TCP segmentation; partial sends deliver everything in order; early
close / errors end in CommError.  Drives the real pycomm3.socket_.Socket over the fake OS socket."""
import itertools
import socket as _real

from vlib import common, fakesock
from vlib.monitors import BudgetExceeded

LEVEL = "fault_enumeration"
SHARDS = {"quick": 4, "thorough": 16}
TIMEOUT = {"quick": 600, "thorough": 2400}
MIN_EVALUATIONS = {"quick": 15000, "thorough": 15000}  # fewer oracle evaluations than this means the workload collapsed: inconclusive
RULE = ("frames with body length in {0,1,2,3,231,232,233,255,256,257,487,488,489,4000,65511}+random, half of them with arbitrary command code, "
        "non-zero encapsulation status, sender context and options (framing depends on the length field alone); receive: every subset of the "
        "boundary cut-set {1,2,3,4,5,23,24,25,26,255,256,257,n-2,n-1} as recv split points, every uniform chunk size 1..256, seeded "
        "random compositions; for each frame the peer closes / times out / resets after every prefix-length class; send: every subset "
        "of the analogous cut-set as partial-send pattern, 0-byte send, error after j bytes; the `timeout` argument left out / given as its documented default 0 "
        "positionally / by keyword (the fake socket treats a zero timeout as the OS does: non-blocking); verdict per case from returned bytes, "
        "exception type and a recv/send call budget. distinct = (frame length, segmentation signature | fault class) evaluated")
ASSUMPTIONS = [
    "one reply frame is in flight at a time (lock-step protocol); recv honours bufsize",
    "a blocking socket with a timeout raises socket.timeout (an OSError) when nothing arrives; a closed peer yields b''",
    "termination = at most len(frame)+64 recv calls (send: len(msg)+64 send calls) AND at most 60*len+20000 executed library lines per call "
    "(sys.monitoring LINE events; a legitimate one-byte-at-a-time receive needs about 6 per byte) - a loop that spins without touching the socket is "
    "'did not terminate', not a wall-clock timeout",
]
ANCHORS = [("pycomm3/socket_.py", "Socket.receive"), ("pycomm3/socket_.py", "Socket.send"), ("pycomm3/socket_.py", "Socket.connect")]


class Peer:
    """scripted endpoint: preloads bytes towards the client, records what the client sent"""

    def __init__(self):
        self.sent = bytearray()
        self.sock = None

    def accept(self, sock):
        self.sock = sock
        return self

    def feed(self, data):
        self.sent += data

    def client_closed(self):
        pass


class LimitedSchedule(fakesock.ChunkSchedule):
    def __init__(self, recv_chunks=None, send_chunks=None, limit=10 ** 9):
        super().__init__(recv_chunks, send_chunks)
        self.limit = limit
        self.calls = 0

    def tick(self):
        self.calls += 1
        if self.calls > self.limit:
            raise BudgetExceeded(f"more than {self.limit} socket calls")

    def send_accept(self, sock, nbytes):
        self.tick()
        return super().send_accept(sock, nbytes)

    def recv_size(self, sock, bufsize, available):
        self.tick()
        return super().recv_size(sock, bufsize, available)


class AfterData:
    """what the peer does once the preloaded bytes are exhausted"""

    def __init__(self, sock, mode, limit):
        self.sock, self.mode, self.limit, self.calls = sock, mode, limit, 0
        self.orig_recv = sock.recv

    def recv(self, bufsize, flags=0):
        s = self.sock
        if s.rx:
            return self.orig_recv(bufsize)
        self.calls += 1
        if self.calls > self.limit:
            raise BudgetExceeded(f"more than {self.limit} recv calls after the peer stopped sending")
        if self.mode == "eof":
            return b""
        if self.mode == "reset":
            raise ConnectionResetError(104, "Connection reset by peer")
        if self.mode == "oserror":
            raise OSError(113, "No route to host")
        raise _real.timeout("timed out")


def frame(body_len, rng):
    body = bytes(rng.randrange(256) for _ in range(min(body_len, 64))) + bytes((i * 7 + 3) & 0xFF for i in range(max(0, body_len - 64)))
    # Framing depends on the length field alone: in half of the frames every other header field is arbitrary - any command
    # code, a non-zero encapsulation status (an error reply may still carry a body), any sender context and options.
    if rng.random() < 0.5:
        hdr = b"\x70\x00" + body_len.to_bytes(2, "little") + rng.getrandbits(32).to_bytes(4, "little") + bytes(4) + b"_pycomm_" + bytes(4)
    else:
        cmd = rng.choice([0x0004, 0x0063, 0x0065, 0x0066, 0x006F, 0x0070, rng.getrandbits(16)])
        status = rng.choice([0, 1, 2, 3, 0x64, 0x65, 0x69, 0x100, 0x80000000, 0xFFFFFFFF, rng.getrandbits(32)])
        hdr = (cmd.to_bytes(2, "little") + body_len.to_bytes(2, "little") + rng.getrandbits(32).to_bytes(4, "little") + status.to_bytes(4, "little")
               + bytes(rng.randrange(256) for _ in range(8)) + rng.choice([0, 0, rng.getrandbits(32)]).to_bytes(4, "little"))
    return hdr + body


def compositions_from_cuts(n, cuts):
    cuts = sorted(c for c in set(cuts) if 0 < c < n)
    prev, out = 0, []
    for c in cuts:
        out.append(c - prev)
        prev = c
    out.append(n - prev)
    return out


class Enough(BaseException):  # not an Exception: the cases catch Exception to classify what the library raised
    """the same non-termination has been witnessed often enough: every further case would burn its whole step budget first"""


def run(ctx):
    res = common.Result("C12")
    try:
        return _run(ctx, res)
    except Enough:
        res.count("stopped-early-after-repeated-nontermination")
        return res
    finally:
        fakesock.FakeNet.uninstall()
        st_ = getattr(ctx, "_steps", None)
        if st_ is not None:
            st_.disarm()
            st_.stop()


def _run(ctx, res):
    import pycomm3
    from pycomm3.socket_ import Socket
    CommError = pycomm3.CommError
    rng = ctx.rng()
    quick = ctx.quick
    net = fakesock.FakeNet().install()
    net.call_budget = 10 ** 9   # this check has its own per-case call budgets
    # a second, logical-step budget (LINE events inside the library): a loop that spins WITHOUT touching the socket never reaches the
    # call budgets above and would otherwise end in the wall-clock watchdog, i.e. inconclusive instead of "did not terminate"
    from vlib.monitors import StepBudget
    steps = StepBudget().start()
    steps.arm()
    ctx._steps = steps

    def guarded(fn, nbytes, *a):
        # the documented default `timeout=0` means "leave the socket's timeout alone" - whether it is left out, passed positionally or
        # by keyword; the fake socket models a zero timeout like the OS does (non-blocking: what has not arrived is not waited for)
        how = rng.randrange(3)
        kw = {"timeout": 0} if how == 1 else {}
        if how == 2:
            a = a + (0,)
        steps.begin(60 * nbytes + 20000)
        try:
            return fn(*a, **kw)
        except BudgetExceeded:
            res.count("calls-that-did-not-terminate")
            if res.counters["calls-that-did-not-terminate"] > 40:
                res.violation("nonterminating-repeatedly", "more than 40 Socket.send()/receive() calls did not terminate within their step budget; run stopped", None)
                raise Enough()
            raise
        finally:
            steps.end()

    def new_sock(peer):
        net.endpoints[("10.9.8.7", 44818)] = peer
        s = Socket(5.0)
        s.connect("10.9.8.7", 44818)
        return s

    def recv_case(fr, chunks, key, after="timeout", prefix=None):
        """prefix=None: whole frame available; else only fr[:prefix] then `after` behaviour"""
        peer = Peer()
        s = new_sock(peer)
        avail = fr if prefix is None else fr[:prefix]
        peer.sock.deliver(avail)
        net.call_ops = 0
        net.schedule = LimitedSchedule(recv_chunks=chunks, limit=len(fr) + 64)
        ad = AfterData(peer.sock, after, 64)
        peer.sock.recv = ad.recv
        res.ev()
        try:
            got = guarded(s.receive, len(fr))
            exc = None
        except BudgetExceeded as b:
            res.violation(f"receive-nonterminating:{'complete' if prefix is None else after}",
                          f"Socket.receive() did not terminate: {b} (frame {len(fr)}B, available {len(avail)}B, chunks {chunks[:12]}, then {after})",
                          {"frame_len": len(fr), "available": len(avail), "chunks": chunks[:64], "after": after})
            return
        except Exception as e:  # noqa
            got, exc = None, e
        if prefix is None:
            if exc is not None:
                res.violation(f"receive-raises:{type(exc).__name__}",
                              f"Socket.receive() raised {exc!r:.120} for a complete {len(fr)}B frame split as {chunks[:12]}",
                              {"frame_len": len(fr), "chunks": chunks[:64]})
            elif got != fr:
                res.violation("receive-wrong-bytes",
                              f"Socket.receive() returned {len(got) if got is not None else None}B != frame {len(fr)}B (chunks {chunks[:12]})",
                              {"frame_len": len(fr), "chunks": chunks[:64], "got": got})
        else:
            if exc is None:
                res.violation(f"receive-partial-returned:{after}",
                              f"Socket.receive() returned {len(got)}B although the peer did '{after}' after {len(avail)}B of a {len(fr)}B frame",
                              {"frame_len": len(fr), "available": len(avail), "chunks": chunks[:64], "after": after})
            elif not isinstance(exc, CommError):
                res.violation(f"receive-foreign:{after}:{type(exc).__name__}",
                              f"Socket.receive() raised {type(exc).__name__}: {exc!s:.100} (not CommError) when the peer did '{after}' after {len(avail)}B of {len(fr)}B",
                              {"frame_len": len(fr), "available": len(avail), "chunks": chunks[:64], "after": after})
        res.seen(key)

    body_lens = [0, 1, 2, 3, 231, 232, 233, 255, 256, 257, 487, 488, 489, 4000, 65511]
    body_lens += [rng.randrange(0, 600) for _ in range(6)] + [rng.randrange(600, 65511) for _ in range(3)]
    work = 0
    for bl in body_lens:
        fr = frame(bl, rng)
        n = len(fr)
        cutset = sorted(c for c in {1, 2, 3, 4, 5, 23, 24, 25, 26, 255, 256, 257, n - 2, n - 1} if 0 < c < n)
        # ---- complete frame: every subset of the cut-set --------------------------------------------------
        subsets = []
        for r in range(len(cutset) + 1):
            subsets.extend(itertools.combinations(cutset, r))
        if quick and len(subsets) > 2048:
            keep = [s for s in subsets if len(s) <= 2] + rng.sample(subsets, 1200)
            subsets = keep
        for cuts in subsets:
            work += 1
            if not ctx.mine(work):
                continue
            recv_case(fr, compositions_from_cuts(n, cuts), ("cuts", bl, cuts))
        # ---- uniform chunk sizes -----------------------------------------------------------------------------
        for cs in range(1, 257):
            work += 1
            if not ctx.mine(work):
                continue
            if n // cs > 3000 and quick and cs % 16:
                continue
            recv_case(fr, [cs] * (n // cs + 1), ("uniform", bl, cs))
        # ---- random compositions ------------------------------------------------------------------------------
        for k in range(40 if quick else 400):
            work += 1
            if not ctx.mine(work):
                continue
            chunks, left = [], n
            mx = rng.choice([1, 2, 3, 4, 8, 24, 100, 256, 1000])
            while left > 0:
                c = rng.randint(1, max(1, min(mx, left)))
                chunks.append(c)
                left -= c
            recv_case(fr, chunks, ("random", bl, common.short_hash(chunks)))
        # ---- peer stops early: every prefix-length class x {eof, timeout, reset, oserror} ---------------------
        prefixes = sorted({0, 1, 2, 3, 4, 5, 23, 24, 25, n - 2, n - 1, n // 2, 255, 256, 257} & set(range(0, n)))
        for pfx in prefixes:
            for after in ("eof", "timeout", "reset", "oserror"):
                for chunks in ([], [1] * min(pfx, 30), [3, 1], [pfx] if pfx else []):
                    work += 1
                    if not ctx.mine(work):
                        continue
                    recv_case(fr, list(chunks), ("early", bl, pfx, after, len(chunks)), after=after, prefix=pfx)

    # ---- history: a receive that fails mid-frame must not poison the next receive on the same Socket ----------------
    for rep in range(60 if quick else 600):
        work += 1
        if not ctx.mine(work):
            continue
        fr1, fr2 = frame(rng.choice([0, 4, 30, 232, 300, 1000]), rng), frame(rng.choice([0, 1, 16, 200, 256, 700]), rng)
        peer = Peer()
        s = new_sock(peer)
        cut = rng.choice([1, 3, 4, 10, 23, 24, 25, max(1, len(fr1) - 1)])
        cut = min(cut, len(fr1) - 1)
        after = rng.choice(["timeout", "reset", "oserror"])
        peer.sock.deliver(fr1[:cut])
        net.call_ops = 0
        net.schedule = LimitedSchedule(recv_chunks=[rng.randint(1, 30) for _ in range(8)], limit=len(fr1) + len(fr2) + 200)
        ad = AfterData(peer.sock, after, 64)
        peer.sock.recv = ad.recv
        res.ev()
        try:
            guarded(s.receive, len(fr1) + len(fr2))
            first = "returned"
        except BudgetExceeded as b_:
            res.violation("receive-nonterminating:incomplete-frame", f"receive() of an incomplete frame ({cut} of {len(fr1)} bytes, then {after}) did not terminate: {b_}", None)
            continue
        except Exception as e:  # noqa
            first = type(e).__name__
        peer.sock.recv = ad.orig_recv
        peer.sock.deliver(fr2)
        net.schedule = LimitedSchedule(recv_chunks=[rng.randint(1, 300) for _ in range(6)], limit=len(fr2) + 200)
        try:
            got = guarded(s.receive, len(fr1) + len(fr2))
            exc = None
        except BudgetExceeded as b_:
            res.violation("receive-nonterminating:after-failed-receive", f"second receive on the same Socket did not terminate: {b_}", None)
            continue
        except Exception as e:  # noqa
            got, exc = None, e
        res.seen("two-step", len(fr1), cut, after, len(fr2))
        if exc is not None or got != fr2:
            res.violation("receive-after-failed-receive", f"after a receive that failed ({first}) {cut} bytes into a {len(fr1)}B frame, the next receive() on the same Socket "
                          f"{'raised ' + repr(exc)[:80] if exc else 'returned %dB' % len(got)} instead of the following complete {len(fr2)}B frame",
                          {"first_frame": len(fr1), "cut": cut, "after": after, "second_frame": len(fr2)})

    # ---- send ---------------------------------------------------------------------------------------------
    def send_case(msg, chunks, key, fault_after=None, fault_kind=None):
        peer = Peer()
        s = new_sock(peer)
        net.call_ops = 0
        sched = LimitedSchedule(send_chunks=chunks, limit=len(msg) + 64)
        net.schedule = sched
        osock = peer.sock
        if fault_after is not None:
            orig_send = osock.send
            state = {"sent": 0}

            def faulty_send(data, flags=0):
                if state["sent"] >= fault_after:
                    sched.tick()
                    if fault_kind == "zero":
                        return 0
                    raise (BrokenPipeError(32, "Broken pipe") if fault_kind == "pipe" else ConnectionResetError(104, "reset"))
                room = fault_after - state["sent"]
                n_ = orig_send(bytes(data)[:room])
                state["sent"] += n_
                return n_
            osock.send = faulty_send
        res.ev()
        try:
            ret = guarded(s.send, len(msg), msg)
            exc = None
        except BudgetExceeded as b:
            res.violation("send-nonterminating", f"Socket.send() did not terminate: {b} ({len(msg)}B, chunks {chunks[:12]}, fault {fault_kind}@{fault_after})",
                          {"len": len(msg), "chunks": chunks[:64]})
            return
        except Exception as e:  # noqa
            ret, exc = None, e
        if fault_after is None:
            if exc is not None:
                res.violation(f"send-raises:{type(exc).__name__}", f"Socket.send() raised {exc!r:.100} with partial sends {chunks[:12]}", {"len": len(msg), "chunks": chunks[:64]})
            elif bytes(peer.sent) != msg:
                res.violation("send-wrong-bytes", f"peer received {len(peer.sent)}B != message {len(msg)}B (or other order) with partial sends {chunks[:12]}",
                              {"len": len(msg), "chunks": chunks[:64], "received": bytes(peer.sent), "message": msg})
        else:
            if exc is None:
                res.violation(f"send-fault-swallowed:{fault_kind}", f"Socket.send() returned {ret!r} although the socket {fault_kind}-failed after {fault_after}B of {len(msg)}B", None)
            elif not isinstance(exc, CommError):
                res.violation(f"send-foreign:{fault_kind}:{type(exc).__name__}", f"Socket.send() raised {type(exc).__name__} (not CommError) on {fault_kind} after {fault_after}B", None)
        res.seen(key)

    for ml in [24, 25, 28, 44, 64, 256, 257, 524, 4024, 4096] + [rng.randrange(24, 5000) for _ in range(4)]:
        msg = frame(ml - 24, rng)
        n = len(msg)
        cutset = sorted(c for c in {1, 2, 3, 4, 5, 23, 24, 25, 26, 255, 256, 257, n - 2, n - 1} if 0 < c < n)
        subsets = []
        for r in range(len(cutset) + 1):
            subsets.extend(itertools.combinations(cutset, r))
        if len(subsets) > (600 if quick else 20000):
            subsets = [s for s in subsets if len(s) <= 2] + rng.sample(subsets, 400 if quick else 8000)
        for cuts in subsets:
            work += 1
            if ctx.mine(work):
                send_case(msg, compositions_from_cuts(n, cuts), ("send-cuts", ml, cuts))
        for cs in (1, 2, 3, 7, 24, 100, 255, 256, 1000):
            work += 1
            if ctx.mine(work):
                send_case(msg, [cs] * (n // cs + 1), ("send-uniform", ml, cs))
        for j in sorted(x for x in {0, 1, 2, 23, 24, 25, n // 2, n - 1} if 0 <= x < n):
            for kind in ("zero", "reset", "pipe"):
                work += 1
                if ctx.mine(work):
                    send_case(msg, [], ("send-fault", ml, j, kind), fault_after=j, fault_kind=kind)
    res.sample({"receive": {"frame_len": 280, "chunks": [3, 21, 1, 231, 24]}, "expect": "exact frame"})
    res.sample({"receive": {"frame_len": 280, "available": 10, "then": "eof"}, "expect": "CommError within 64 recv calls"})
    res.sample({"send": {"len": 524, "partial": [1, 22, 1, 500]}, "expect": "peer sees the same 524 bytes in order"})
    res.notes["max_line_events_in_one_call"] = steps.max_seen
    return res
