"""C14 - generic messaging delivers the request verbatim and returns the answer (router journal of the
reference target vs what was requested; returned Tag vs the reply the target produced)."""
from vlib.bench import ScenarioDead
from vlib import common, devices, refpath
from vlib import refcodec as rc
from vlib import refepath as rp
from vlib import reftarget as rt
from vlib.bench import Bench

LEVEL = "exploration"
SHARDS = {"quick": 4, "thorough": 16}
TIMEOUT = {"quick": 900, "thorough": 2400}
MIN_EVALUATIONS = {"quick": 8000, "thorough": 8000}  # fewer oracle evaluations than this means the workload collapsed: inconclusive
RULE = ("generic_message over: service 0..0x7F (int and bytes), class/instance/attribute as int or 1/2/4-byte bytes over 8/16/32-bit "
        "values, request data of every length 0..64 and random to 400, transports {connected, direct UCMM, Unconnected Send}, route_path "
        "in {True, False, string, segment list, pre-encoded bytes}, arguments by keyword or the first 3..10 of them positionally in the documented order, driver paths spelled from the path grammar over 0-3 hop chassis, any "
        "reply data / status chosen by the target (typed replies decoded with the type or, in 30 % of the cases, a named instance of it); helpers get_module_info(slot), get_plc_name, get_plc_info, get/set_plc_time "
        "(0..year 9999 in microseconds); get_module_info on an empty slot; typed replies too short for the data type; re-open after a close() "
        "whose Forward Close the target refused (connection timed out on the PLC); Unconnected Send refused by the router itself (reply service 0xD2: falsy Tag "
        "with the status text); get_plc_name() again after the controller's program name changed; set_plc_time() without an argument; get_plc_time() answered with success replies that hold no value (attribute status, cut, empty) or bytes after the value "
        "(never a time from nothing, never a foreign exception, a reported time is the controller's). Oracle: the target's router journal entry (transport, service, "
        "path, data, route) equals the request, the raw request path uses the segment widths the caller gave as bytes; Tag value equals the "
        "target's reply data (raw or reference-decoded). distinct = (transport, route_path form, "
        "path widths, data-length parity, reply class) evaluated")
ASSUMPTIONS = [
    "direct UCMM with a route: the encoded route follows the request data by design (Forward Open is built that way); the oracle expects data == request_data ++ route there",
    "unconnected_send=True with route_path=False has no route to wrap: not generated",
    "reference target tolerates any timeout ticks / priority",
]
ANCHORS = [
    ("pycomm3/cip_driver.py", "CIPDriver.generic_message"), ("pycomm3/packets/cip.py", "GenericConnectedRequestPacket._setup_message"),
    ("pycomm3/packets/cip.py", "GenericUnconnectedRequestPacket._setup_message"), ("pycomm3/packets/util.py", "wrap_unconnected_send"),
    ("pycomm3/packets/cip.py", "GenericConnectedResponsePacket._parse_reply"), ("pycomm3/packets/cip.py", "GenericUnconnectedResponsePacket._parse_reply"),
    ("pycomm3/cip_driver.py", "CIPDriver.get_module_info"), ("pycomm3/logix_driver.py", "LogixDriver.get_plc_name"),
    ("pycomm3/logix_driver.py", "LogixDriver.get_plc_info"), ("pycomm3/logix_driver.py", "LogixDriver.get_plc_time"),
    ("pycomm3/logix_driver.py", "LogixDriver.set_plc_time"),
]


# documented signature of generic_message (docs/usage/cipdriver.rst, API reference): positional order and defaults
GM_ORDER = ["service", "class_code", "instance", "attribute", "request_data", "data_type", "name", "connected", "unconnected_send", "route_path"]
GM_DEFAULTS = {"attribute": b"", "request_data": b"", "data_type": None, "name": "generic", "connected": True, "unconnected_send": False, "route_path": True}


def width(v):
    return 8 if v <= 0xFF else 16 if v <= 0xFFFF else 32


def pick_value(rng):
    r = rng.random()
    if r < 0.45:
        return rng.choice([1, 2, 3, 0x64, 0x6B, 0x6C, 0x8B, 0xF5, 127, 128, 254, 255])
    if r < 0.75:
        return rng.choice([256, 257, 0x300, 0x7FFF, 0x8000, 0xFFFE, 0xFFFF, rng.randrange(256, 65536)])
    return rng.choice([65536, 65537, 1 << 24, (1 << 31) - 1, 1 << 31, (1 << 32) - 1, rng.randrange(65536, 1 << 32)])


def arg_form(rng, v):
    if rng.random() < 0.5:
        return v
    size = rng.choice([s for s in (1, 2, 4) if v < (1 << (8 * s))])
    return v.to_bytes(size, "little")


def hops_to_segments(p, hops):
    return [p.PortSegment(rng_port, link) for rng_port, link in hops]


def run(ctx):
    res = common.Result("C14")
    import pycomm3 as p
    rng = ctx.rng()
    quick = ctx.quick
    vend_ids = [k for k in p.VENDORS if isinstance(k, int)]
    type_ids = [k for k in p.PRODUCT_TYPES if isinstance(k, int)]
    reply_types = [
        (None, None), (p.UINT, ("int", 2, False)), (p.DINT, ("int", 4, True)), (p.STRING, ("str", 2, 1)), (p.SHORT_STRING, ("str", 1, 1)),
        (p.REAL, ("real", 4)), (p.USINT[4], ("array", 4, ("int", 1, False))),
        (p.Struct(p.UINT("a"), p.SHORT_STRING("b"), p.DINT("c")), ("struct", (("a", ("int", 2, False)), ("b", ("str", 1, 1)), ("c", ("int", 4, True))))),
        (p.INT[None], ("uarray", ("int", 2, True))),
    ]

    nscen = 400 if quick else 6000
    for sc in range(nscen):  # WRAPPED
        try:
            if not ctx.mine(sc):
                continue
            b = Bench(rng)
            # ---- chassis: a route of 0-3 hops to the device the driver talks to, plus sibling slots -------------
            hops = refpath.gen_route(rng, max_hops=3)
            if rng.random() < 0.5:
                hops = [(1, rng.choice([0, 1, 3, 16]))]
            log = b.log
            dev = rt.Device(devices.random_identity(rng, vend_ids, type_ids), rng, log)
            front = dev if not hops else rt.Device(devices.random_identity(rng, vend_ids, type_ids), rng, log)
            routes = {tuple(hops): dev}
            siblings = {}
            for slot in rng.sample(range(0, 18), 4):
                r = tuple(hops[:-1]) + ((1, slot),) if hops else ((1, slot),)
                if r not in routes:
                    siblings[slot] = rt.Device(devices.random_identity(rng, vend_ids, type_ids), rng, log)
                    routes[r] = siblings[slot]
            other_route = tuple(refpath.gen_route(rng, max_hops=2)) or ((1, 9),)
            if other_route not in routes:
                routes[other_route] = rt.Device(devices.random_identity(rng, vend_ids, type_ids), rng, log)
            pol = rt.Policy()
            pol.accept_large_fo = rng.random() < 0.7
            t = rt.RefTarget(rng, front=front, routes=routes, policy=pol, log=log)
            host = refpath.gen_host(rng)
            port = rng.choice([None, None, 44818, 2222, rng.randint(1, 65534)])
            b.set_target(t, host=host, port=port or 44818)
            path = refpath.spell(rng, host, port, hops, False)
            try:
                drv = p.CIPDriver(path)
            except Exception as e:  # noqa
                res.ev()
                res.violation("driver-construction", f"CIPDriver({path!r}) raised {e!r:.160} for a path in the documented grammar", {"path": path})
                b.close()
                continue
            st, out = b.call("open", drv.open)
            if st != "ok" or not out:
                res.ev()
                res.violation("open-failed", f"CIPDriver({path!r}).open() -> {out!r:.160} against a conforming target", {"path": path})
                b.close()
                continue

            state = {}

            def responder(rq):
                return state["reply"]

            for d_ in list(routes.values()) + [front]:
                d_.responder = responder

            def module_info_round():
                # ---- get_module_info(slot): identity of the module in that slot of the driver's chassis -------------------
                for slot, sdev in sorted(siblings.items()):
                    for d_ in routes.values():
                        d_.responder = None
                    st, info = b.call("get_module_info", drv.get_module_info, slot)
                    res.ev()
                    res.seen("get_module_info", len(hops))
                    idn = sdev.identity
                    if st != "ok" or not isinstance(info, dict) or info.get("product_name") != idn.name or info.get("serial") != f"{idn.serial:08x}" or info.get("product_code") != idn.product_code:
                        res.violation("get_module_info", f"get_module_info({slot}) over path {path!r} -> {info!r:.200}; slot holds {idn.name!r} serial {idn.serial:08x}", None)
                    for d_ in routes.values():
                        d_.responder = responder
                # an empty slot: the chassis refuses the route; the helper may only fail with a library exception (documented: ResponseError)
                empty = [s_ for s_ in range(18) if (tuple(hops[:-1]) + ((1, s_),) if hops else ((1, s_),)) not in routes]
                if empty:
                    slot = rng.choice(empty)
                    st, info = b.call("get_module_info", drv.get_module_info, slot)
                    res.ev()
                    res.seen("get_module_info-empty-slot", len(hops))
                    if st == "ok" and info:
                        res.violation("get_module_info-empty-slot", f"get_module_info({slot}) over path {path!r}: the slot is empty but the call returned {info!r:.160}", None)
                    elif st == "exc" and not isinstance(info, p.PycommError):
                        res.violation(f"get_module_info-foreign-exception:{type(info).__name__}", f"get_module_info({slot}) on an empty slot raised {info!r:.160}", None)

            ncalls = 40 if quick else 60
            for k in range(ncalls):
                if k in (ncalls // 3, ncalls - 3):
                    module_info_round()
                service = rng.randrange(0x80)
                cls_v = pick_value(rng)
                while cls_v in (1, 6):
                    cls_v = pick_value(rng)
                inst_v, attr_v = pick_value(rng), pick_value(rng)
                if rng.random() < 0.08:
                    inst_v = 0  # documented: instance 0 requests class attributes - it must still be delivered
                use_attr = rng.random() < 0.5
                n = k if k <= 64 and sc % 3 == 0 else rng.choice([0, 1, 2, 3, 7, 8, 63, 64, 65, rng.randrange(0, 400)])
                req_data = bytes(rng.randrange(256) for _ in range(n))
                transport = rng.choice(["connected", "ucmm", "unconnected_send"])
                # reply chosen by the target
                short_reply = False
                dt, desc = rng.choice(reply_types)
                if rng.random() < 0.2:
                    status = rng.choice([1, 2, 4, 5, 8, 0x0E, 0x14, 0x1E, 0xFF, rng.randrange(1, 256)])
                    ext = rng.choice([(), (), (rng.randrange(65536),), (0x2105,)])
                    rdata = bytes(rng.randrange(256) for _ in range(rng.choice([0, 0, 3])))
                else:
                    status, ext = 0, ()
                    if desc is None:
                        rdata = bytes(rng.randrange(256) for _ in range(rng.choice([0, 1, 2, 5, 33, 200])))
                    else:
                        from vlib import typegrammar as tg
                        val = tg.gen_value(desc, rng, small=True)
                        rdata = rc.encode(desc, val)
                        if desc[0] != "uarray" and rng.random() < 0.4:
                            rdata += bytes(rng.randrange(256) for _ in range(rng.choice([1, 4, 9])))  # trailing reply bytes, as in the docs' capture
                        elif len(rdata) > 0 and rng.random() < 0.12:
                            # the device answers fewer bytes than the requested data type needs: no value can be decoded
                            cut = rdata[: rng.randrange(len(rdata))]
                            try:
                                rc.decode(desc, cut)
                            except rc.RefError:
                                rdata, short_reply = cut, True
                state["reply"] = (status, ext, rdata)
                if dt is not None and rng.random() < 0.3:
                    # `data_type` may be a type or a named member of one (what a Struct definition holds: UINT("vendor")) - both decode
                    try:
                        dt = dt("reply_q")
                        res.count("typed-replies-decoded-with-a-named-instance")
                    except Exception:  # noqa  (a type that cannot be instantiated with a name stays a class)
                        pass
                kwargs = dict(service=service if rng.random() < 0.5 else bytes([service]), class_code=arg_form(rng, cls_v),
                              instance=arg_form(rng, inst_v), request_data=req_data, data_type=dt, name=f"msg{k}")
                if use_attr:
                    kwargs["attribute"] = arg_form(rng, attr_v)
                exp_route, exp_dev, exp_data = tuple(hops), dev, req_data
                rp_form = "n/a"
                if transport == "connected":
                    kwargs["connected"] = True
                else:
                    kwargs["connected"] = False
                    kwargs["unconnected_send"] = transport == "unconnected_send"
                    rp_form = rng.choice(["true", "false", "str", "list", "bytes", "default"])
                    # unconnected_send=True together with route_path=False / b"" / [] is left out: "wrap it in an Unconnected Send" and
                    # "use no route" contradict each other (the service exists to carry a route; the pinned tree emits the wrapper without
                    # the route-size field, which no device accepts) - what such a call should do is not stated anywhere: don't-care
                    us_empty = False
                    if transport == "unconnected_send" and rp_form == "false":
                        rp_form = "true"
                    tgt_route = tuple(hops) if rng.random() < 0.6 else rng.choice(list(routes))
                    if rp_form == "true":
                        kwargs["route_path"] = True
                        tgt_route = tuple(hops)
                    elif rp_form == "default":
                        tgt_route = tuple(hops)
                    elif rp_form == "false":
                        kwargs["route_path"] = rng.choice([False, b"", []]) if us_empty else False
                        tgt_route = None
                    elif rp_form == "str":
                        if not tgt_route:
                            tgt_route = tuple(hops)
                            kwargs["route_path"] = True
                            rp_form = "true"
                        else:
                            sp = refpath.spell(rng, "h", None, list(tgt_route), False, force_long=True)[2:]
                            kwargs["route_path"] = sp.replace(",", rng.choice("/\\"))  # commas are documented for driver paths only
                    elif rp_form == "list":
                        if not tgt_route:
                            rp_form, kwargs["route_path"], tgt_route = "true", True, tuple(hops)
                        else:
                            kwargs["route_path"] = [p.PortSegment(pp, ll) for pp, ll in tgt_route]
                    elif rp_form == "bytes":
                        kwargs["route_path"] = refpath.route_bytes(list(tgt_route), pad_after_size=True)
                    if us_empty:
                        exp_route, exp_dev = (), front
                    elif transport == "unconnected_send":
                        exp_route, exp_dev = tgt_route, routes[tgt_route]
                    else:
                        exp_route, exp_dev = (), front
                        if tgt_route is not None:
                            exp_data = req_data + refpath.route_bytes(list(tgt_route), pad_after_size=True)
                before = len(exp_dev.journal)
                all_before = sum(len(d_.journal) for d_ in set(routes.values()) | {front})
                # the documented signature, by keyword or with the first k parameters given positionally (defaults filled in): the same call
                npos = rng.choice([0, 0, 0, 3, 4, 5, 6, 7, 8, 9, 10])
                pargs, kw_ = [], dict(kwargs)
                for nm_ in GM_ORDER[:npos]:
                    pargs.append(kw_.pop(nm_) if nm_ in kw_ else GM_DEFAULTS[nm_])
                st, tag = b.call("generic_message", drv.generic_message, *pargs, **kw_)
                res.ev()
                res.seen("positional-args", npos)
                res.seen(transport, rp_form, width(cls_v), width(inst_v), width(attr_v) if use_attr else 0, n % 2, status == 0, dt is None, len(hops))
                desc_txt = f"generic_message(service={service:#x}, class={cls_v:#x}, instance={inst_v:#x}, attribute={(attr_v if use_attr else None)!r}, {n}B data, {transport}, route_path={rp_form}, path={path!r})"
                if st != "ok":
                    res.violation(f"raises:{transport}", f"{desc_txt} raised {tag!r:.160}", {"kwargs": {k_: v for k_, v in kwargs.items() if k_ != "data_type"}})
                    continue
                new = exp_dev.journal[before:]
                all_after = sum(len(d_.journal) for d_ in set(routes.values()) | {front})
                if len(new) != 1 or all_after - all_before != 1:
                    res.violation(f"delivery-count:{transport}", f"{desc_txt}: the intended device received {len(new)} requests, all devices {all_after - all_before} (exactly one expected)",
                                  {"kwargs": {k_: v for k_, v in kwargs.items() if k_ != "data_type"}, "log": [v[:3] for v in log.violations[-3:]]})
                    log.violations.clear()
                    continue
                j = new[0]
                want_segs = [("logical", "class", cls_v), ("logical", "instance", inst_v)] + ([("logical", "attribute", attr_v)] if use_attr else [])
                if j["transport"] != transport or j["service"] != service or j["segs"] != want_segs or j["data"] != exp_data or tuple(j["route"]) != tuple(exp_route):
                    res.violation(f"request-altered:{transport}:{rp_form}",
                                  f"{desc_txt}: target saw transport={j['transport']} service={j['service']:#x} path={j['segs']!r} data={j['data'].hex()[:80]} route={j['route']!r}; "
                                  f"expected {transport} {service:#x} {want_segs!r} {exp_data.hex()[:80]} {exp_route!r}",
                                  {"seen": j, "expected": {"segs": want_segs, "data": exp_data, "route": exp_route}})
                else:
                    # class / instance / attribute given as bytes carry their segment width with them (some devices insist on a
                    # 16- or 32-bit form): the request path the target received must use exactly those widths, ints the minimal one
                    from vlib import refepath
                    want_raw = b""
                    for tname, key_, val_ in (("class", "class_code", cls_v), ("instance", "instance", inst_v), ("attribute", "attribute", attr_v)):
                        if key_ not in kwargs:
                            continue
                        a_ = kwargs[key_]
                        want_raw += refepath.build_logical(tname, val_, force_size=len(a_) if isinstance(a_, (bytes, bytearray)) else None)
                    if bytes(j.get("path", b"")) != want_raw:
                        res.violation(f"request-path-width:{transport}",
                                      f"{desc_txt}: class/instance/attribute were given as {[kwargs.get(k_) for k_ in ('class_code', 'instance', 'attribute')]!r}; "
                                      f"the target received the path {bytes(j.get('path', b'')).hex()}, the given widths are {want_raw.hex()}",
                                      {"path": bytes(j.get("path", b"")), "expected": want_raw})
                # ---- the answer ---------------------------------------------------------------------------------
                if short_reply:
                    res.seen("short-typed-reply", transport, desc[0])
                    if tag or tag.value is not None or not tag.error:
                        res.violation(f"short-typed-reply-not-falsy:{transport}", f"{desc_txt}: target replied status 0 with {len(rdata)} data bytes ({rdata.hex()[:40]}), too few for the "
                                      f"requested data type {desc!r:.80}; Tag = {tag!r:.200} (expected a falsy Tag with an error text)", {"reply": rdata})
                elif status == 0:
                    if desc is None:
                        want_val = rdata
                        okv = isinstance(tag.value, (bytes, bytearray)) and bytes(tag.value) == rdata
                    else:
                        want_val, _ = rc.decode(desc, rdata)
                        okv = rc.values_equal(desc, want_val, tag.value)
                    if not tag or tag.error is not None or not okv:
                        res.violation(f"reply-altered:{'raw' if desc is None else desc[0]}",
                                      f"{desc_txt}: target replied status 0 data {rdata.hex()[:80]}; Tag = {tag!r:.200}, expected value {want_val!r:.120}",
                                      {"reply": rdata})
                elif status == 6 and service in (0x03, 0x0A, 0x52, 0x53, 0x55):
                    # general status 6 (partial transfer) on a service that legitimately continues counts as success (C13's rule);
                    # a random service code from that set with a random status 6 is therefore not a refusal
                    res.dont_care("status-6-on-a-continuing-service")
                else:
                    if tag or not tag.error:
                        res.violation("refusal-not-falsy", f"{desc_txt}: target refused with status {status:#x} ext {ext!r}; Tag = {tag!r:.200}", None)
                if tag.tag != f"msg{k}":
                    res.violation("tag-name", f"generic_message(name='msg{k}') returned Tag.tag = {tag.tag!r}", None)
                if sc < 2 and k < 2:
                    res.sample({"call": desc_txt, "target_saw": {"transport": j["transport"], "service": j["service"], "path": j["segs"], "data": j["data"], "route": j["route"]}, "tag": repr(tag)[:200]})

            # ---- an Unconnected Send over a route that leads nowhere: the refusal comes from the ROUTER's Connection Manager - reply
            # service 0xD2 (not the echo of the embedded request's service), status 0x01 + extended status.  "A refused request returns
            # a falsy Tag carrying the status text"
            empty2 = [s_ for s_ in range(18) if (tuple(hops[:-1]) + ((1, s_),) if hops else ((1, s_),)) not in routes]
            if empty2:
                dead = (list(hops[:-1]) if hops else []) + [(1, rng.choice(empty2))]
                st, tg_ = b.call("generic_message", drv.generic_message, service=0x0E, class_code=0x01, instance=1, attribute=1, connected=False, unconnected_send=True,
                                 route_path=[p.PortSegment(pp, ll) for pp, ll in dead], name="nowhere")
                res.ev()
                res.seen("unroutable-unconnected-send", len(dead))
                want_txt = p.SERVICE_STATUS.get(0x01, "")
                if st != "ok":
                    res.violation("unroutable-unconnected-send:raises", f"generic_message over the dead route {dead!r} raised {tg_!r:.160} instead of returning a falsy Tag", None)
                elif tg_ or not tg_.error or (want_txt and want_txt not in str(tg_.error)):
                    res.violation("unroutable-unconnected-send:status-text", f"generic_message over the dead route {dead!r}: the router refused with status 0x01 / 0x0311-0x0312 (reply service 0xD2); "
                                                                            f"Tag = {tg_!r:.200}, expected a falsy Tag whose error names {want_txt!r}", None)
                log.violations[:] = [v for v in log.violations if v[0] == "C14"]
            # ---- re-open after a refused Forward Close: the PLC had already timed the connection out (it answers 01/0107 and
            # holds nothing); after close() / open() a connected message must be delivered again - over a NEW connection
            if sc % 3 == 0:
                state["reply"] = (0, (), b"ok")
                b.call("gm", drv.generic_message, service=0x0E, class_code=0x64, instance=1, attribute=1, connected=True, name="before")
                t.expire_connections()
                b.call("close", drv.close)           # may raise CommError for the refused Forward Close: either way the driver is closed
                log.drain_into(res, {"C14"})
                log.violations.clear()
                st, out = b.call("open", drv.open)
                before = len(dev.journal)
                st2, tag2 = b.call("gm", drv.generic_message, service=0x0E, class_code=0x64, instance=2, attribute=1, connected=True, name="after") if st == "ok" and out else ("skip", None)
                res.ev()
                res.seen("reopen-after-refused-forward-close", len(hops), st, st2)
                if st != "ok" or not out:
                    res.violation("reopen-after-refused-forward-close:open", f"open() after a close() whose Forward Close the target refused (01/0107) -> {out!r:.160} (path {path!r})", None)
                elif st2 != "ok" or not tag2 or len(dev.journal) != before + 1:
                    res.violation("reopen-after-refused-forward-close:message",
                                  f"connected generic_message after close() (Forward Close refused with 01/0107) and open(): -> {tag2!r:.160}; the device received {len(dev.journal) - before} request(s) "
                                  f"(path {path!r}); target log: {[v[1] for v in log.violations[-3:]]}", None)
                log.violations[:] = [v for v in log.violations if v[0] == "C14"]
            b.call("close", drv.close)
            log.drain_into(res, {"C14"})
            log.violations.clear()
            b.close()
        except ScenarioDead:
            continue

    # ---- LogixDriver helpers against a controller shell ---------------------------------------------------------
    nctl = 240 if quick else 4000
    for sc in range(nctl):  # WRAPPED
        try:
            if not ctx.mine(sc + 1):
                continue
            b = Bench(rng)
            micro = rng.random() < 0.3
            ident = devices.random_identity(rng, vend_ids, type_ids, micro800=micro)
            pname = "".join(chr(rng.choice([rng.randrange(0x20, 0x7F), rng.randrange(0xA0, 0x100)])) for _ in range(rng.choice([0, 1, 5, 12, 40])))
            ctl = devices.ControllerDevice(ident, rng, b.log, program_name=pname, clock_us=rng.randrange(0, 253402300799999999))
            slot = rng.choice([0, 0, 1, 4])
            routes = {((1, slot),): ctl}
            t = rt.RefTarget(rng, front=ctl, routes=routes, log=b.log)
            b.set_target(t)
            path = b.host if slot == 0 and rng.random() < 0.5 else f"{b.host}/{slot}"
            drv = p.LogixDriver(path, init_tags=False)
            st, out = b.call("open", drv.open)
            res.ev()
            if st != "ok" or not out:
                res.violation("logix-open-failed", f"LogixDriver({path!r}, init_tags=False).open() -> {out!r:.200} (micro800={micro})", {"identity": ident.name})
                b.close()
                continue
            res.seen("helpers", micro, slot)
            if not micro:
                if drv.info.get("name") != pname:
                    res.violation("get_plc_name", f"info['name'] = {drv.info.get('name')!r}, controller program name {pname!r}", None)
                st, nm = b.call("get_plc_name", drv.get_plc_name)
                res.ev()
                if st != "ok" or nm != pname:
                    res.violation("get_plc_name", f"get_plc_name() -> {nm!r}, controller program name {pname!r}", None)
                # the helper asks the controller each time: after another project was downloaded it reports the new name
                pname2 = "".join(chr(rng.randrange(0x41, 0x5B)) for _ in range(rng.choice([1, 6, 20]))) + "_2"
                ctl.program_name = pname2
                nj_ = len(ctl.journal)
                st, nm = b.call("get_plc_name", drv.get_plc_name)
                res.ev()
                res.seen("get_plc_name-again", len(pname2))
                if st != "ok" or nm != pname2:
                    res.violation("get_plc_name-stale", f"the controller's program name changed from {pname!r} to {pname2!r}; a second get_plc_name() -> {nm!r} "
                                                        f"({len(ctl.journal) - nj_} request(s) reached the controller)", None)
                pname = pname2
            j = [e for e in ctl.journal if e["segs"][:1] == [("logical", "class", 1)]]
            want_tr = "ucmm" if micro else "unconnected_send"
            if not j or j[-1]["transport"] != want_tr or j[-1]["service"] != 1:
                res.violation("get_plc_info-transport", f"get_plc_info reached the identity object via {j[-1]['transport'] if j else None}, expected {want_tr} (micro800={micro})", None)
            for rep in range(4):
                us = rng.choice([0, 1, 999_999, 1_000_000, 1_600_000_000_000_000, 253402300799999999, rng.randrange(0, 253402300799999999)])
                st, tg_ = b.call("set_plc_time", drv.set_plc_time, us)
                res.ev()
                if st != "ok" or not tg_:
                    res.violation("set_plc_time", f"set_plc_time({us}) -> {tg_!r:.200}", None)
                    continue
                if ctl.clock_us != us:
                    res.violation("set_plc_time-value", f"set_plc_time({us}) left the controller clock at {ctl.clock_us}", None)
                st, tg_ = b.call("get_plc_time", drv.get_plc_time)
                res.ev()
                res.seen("time", us.bit_length() // 8)
                if st != "ok" or not tg_ or not isinstance(tg_.value, dict) or tg_.value.get("microseconds") != us:
                    res.violation("get_plc_time", f"after set_plc_time({us}), get_plc_time() -> {tg_!r:.240}", None)
                else:
                    import datetime
                    want_dt = datetime.datetime(1970, 1, 1) + datetime.timedelta(microseconds=us)
                    if tg_.value.get("datetime") != want_dt:
                        res.violation("get_plc_time-datetime", f"get_plc_time() datetime {tg_.value.get('datetime')!r} != {want_dt!r}", None)
            # set_plc_time() without an argument writes the host's current time: it must lie between the host clock read just before
            # and just after the call, and it is what get_plc_time() then reports (no wall-clock deadline involved)
            import time as _time
            t_before = int(_time.time() * 1_000_000) - 1
            st, tg_ = b.call("set_plc_time", drv.set_plc_time)
            t_after = int(_time.time() * 1_000_000) + 1
            res.ev()
            res.seen("time", "now")
            if st != "ok" or not tg_:
                res.violation("set_plc_time-now", f"set_plc_time() -> {tg_!r:.200}", None)
            elif not t_before <= ctl.clock_us <= t_after:
                res.violation("set_plc_time-now-value", f"set_plc_time() left the controller clock at {ctl.clock_us}; the host clock was between {t_before} and {t_after}", None)
            else:
                wrote = ctl.clock_us
                st, tg_ = b.call("get_plc_time", drv.get_plc_time)
                if st != "ok" or not tg_ or not isinstance(tg_.value, dict) or tg_.value.get("microseconds") != wrote:
                    res.violation("get_plc_time", f"after set_plc_time() wrote {wrote}, get_plc_time() -> {tg_!r:.240}", None)
            # generic messages through the controller driver use the route the driver actually connected over
            # (a Micro800 drops the backplane hop while initialising)
            exp_route = () if micro else ((1, slot),)
            ctl.responder = lambda rq: (0, (), b"\x2a\x00")
            for mode in ("usend", "ucmm"):
                nj = len(ctl.journal)
                data = bytes(rng.randrange(256) for _ in range(rng.choice([0, 1, 2, 5])))
                st, tg_ = b.call("generic_message", drv.generic_message, service=0x33, class_code=0x300, instance=rng.choice([0, 1, 7]), request_data=data,
                                 connected=False, unconnected_send=(mode == "usend"), route_path=True)
                res.ev()
                res.seen("helpers-gm", micro, mode, slot)
                if st != "ok" or not tg_ or len(ctl.journal) != nj + 1:
                    res.violation(f"controller-generic-message:{mode}", f"LogixDriver.generic_message({mode}, route_path=True) against {'Micro800' if micro else 'Logix'} in slot {slot} -> {tg_!r:.160}; "
                                  f"requests delivered {len(ctl.journal) - nj}", {"micro800": micro, "slot": slot})
                else:
                    j = ctl.journal[-1]
                    want_data = data if mode == "usend" else data + refpath.route_bytes(list(exp_route), pad_after_size=True)
                    want_rt = exp_route if mode == "usend" else ()
                    if j["data"] != want_data or tuple(j["route"]) != want_rt:
                        res.violation(f"controller-generic-message-route:{mode}", f"LogixDriver.generic_message({mode}, route_path=True) ({'Micro800' if micro else 'Logix'}, slot {slot}): target saw data {j['data'].hex()} route {j['route']!r}; "
                                      f"expected {want_data.hex()} route {want_rt!r}", {"micro800": micro, "slot": slot})
            ctl.responder = None
            # refusal: wall clock rejects -> falsy Tag with status text
            ctl.force_status = lambda rq: (0x0F, (), b"") if rq.logical("class") == 0x8B else None
            st, tg_ = b.call("get_plc_time", drv.get_plc_time)
            res.ev()
            if st != "ok" or tg_ or not tg_.error:
                res.violation("helper-refusal", f"get_plc_time() with the clock object refusing (0x0F) -> {tg_!r:.200}", None)
            ctl.force_status = None
            # "any reply data": a success-status answer of the clock object that is not the 6 + 8 bytes of one attribute with its
            # value.  Without a value (attribute-level status 0x14 / 0x09, cut after the header, empty) there is no time to report:
            # never a truthy Tag.  With bytes after the value (a further attribute, padding) a time is reported only if it is the
            # controller's.
            head_ = (1).to_bytes(2, "little") + (0x0B).to_bytes(2, "little")
            val_ = ctl.clock_us.to_bytes(8, "little")
            for lbl_, data_ in [("no-value:attribute-status", head_ + b"\x14\x00"), ("no-value:cut", head_ + b"\x00\x00" + val_[:rng.choice([1, 4, 7])]),
                                ("no-value:empty", b""), ("no-value:count-only", b"\x01\x00"),
                                ("trailing", head_ + b"\x00\x00" + val_ + bytes(rng.randrange(1, 256) for _ in range(rng.choice([1, 2, 4, 12]))))]:
                ctl.force_status = lambda rq, d=data_: (0, (), d) if rq.logical("class") == 0x8B else None
                st, tg_ = b.call("get_plc_time", drv.get_plc_time)
                ctl.force_status = None
                res.ev()
                res.seen("get_plc_time-reply-shape", lbl_)
                if st == "exc" and not isinstance(tg_, p.PycommError):
                    res.violation("get_plc_time-reply-shape:foreign-exception", f"get_plc_time() with a success reply of {len(data_)} bytes ({lbl_}) raised {tg_!r:.160}", {"reply": data_})
                elif st == "ok" and tg_ and lbl_.startswith("no-value"):
                    res.violation("get_plc_time-reply-shape:time-from-nothing", f"get_plc_time() with a success reply that holds no time value ({lbl_}: {data_.hex()}) -> {tg_!r:.200}", {"reply": data_})
                elif st == "ok" and tg_ and isinstance(tg_.value, dict) and tg_.value.get("microseconds") != ctl.clock_us:
                    res.violation("get_plc_time-reply-shape:wrong-time", f"get_plc_time() with bytes after the value ({data_.hex()}) reports {tg_.value.get('microseconds')!r}; the controller's clock is {ctl.clock_us}", {"reply": data_})
            b.call("close", drv.close)
            b.log.drain_into(res, {"C14"})
            b.close()
        except ScenarioDead:
            continue
    return res
