"""C18 - SLC addresses select the right file, element and bit; data round-trips."""
import struct

from vlib.bench import Bench, ScenarioDead
from vlib import common, refslc
from vlib import reftarget as rt

LEVEL = "exploration"
SHARDS = {"quick": 4, "thorough": 16}
TIMEOUT = {"quick": 900, "thorough": 3000}
MIN_EVALUATIONS = {"quick": 8000, "thorough": 8000}  # fewer oracle evaluations than this means the workload collapsed: inconclusive
RULE = ("addresses generated from the data-file grammar: N/B/F/L word form, /bit form, S: and I:/O: forms (with .word), Bf/n for EVERY n in "
        "0..4095, {count} within one packet (reads up to 118 words / 59 floats: reply frames on both sides of the transport's 256-byte receive), T/C .PRE/.ACC/.EN/.TT/.DN/.CU/.CD/.OV/.UN/.UA reads; file numbers incl. 1 and 255, elements incl. 0, "
        "254 and 255 (which need the FF escape), upper/lower case; random prior data tables; 2..4 addresses in one read() call (bits of different words of one I/O element, several bits of one word, a word and its bits, unrelated addresses); reads are compared with the data table, the PCCC "
        "command the reference target received (file, type, element, sub-element, size, mask) with what the address denotes; writes (word, "
        "{count}, bit forms; values over the element type) are followed by a diff of the whole data table (only the addressed bit/words may "
        "change) and a read-back; malformed addresses (unknown file letter, file 0/256+, element 256+, bit 16+, Bf/4096+), alone or first / in the middle / last "
        "among valid addresses of one read() / write(), must raise RequestError; addresses of files the data table does not hold (absent, other type, shorter than the element) and any non-zero PCCC status byte forced on a valid request must "
        "give a falsy Tag with a status text and change nothing; writes of values the element type cannot hold or of fewer values than {count} "
        "may neither report success nor change the table. distinct = (form, file type, element class, bit, op) evaluated")
ASSUMPTIONS = [
    "ST/A/R files and timer/counter writes are outside the property; leading zeros, counts on bit addresses and I/O words beyond 4 are don't-cares",
    "reference data-table model: N,B,S,I,O 1 word; F,L 2 words; T,C 3 words (control, PRE, ACC); one word in six of the random memory image is an edge value "
    "(0, 1, 0x7FFF, 0x8000, 0xFFFF: an idle timer has PRE / ACC 0)",
    "the node is free to: detect duplicates the DF1 way (same command and transaction number as the previous command -> the reply is repeated, nothing is "
    "executed; half of the scenarios), choose any session handle (a third of the scenarios: one whose bytes look like a protocol marker), refuse what does not "
    "fit the negotiated connection size; several addresses in one write() call are each applied and nothing else changes (a third of these calls name their first address twice: n results, the later value stays); "
    "forced PCCC statuses come with and without bytes after STS (EXT STS, padding, up to 20 bytes); the caller's value list is unchanged after a write (also when longer than {count}) and a fifth of the {count} values are passed as tuples; a quarter of the {count} writes "
    "carry up to 234 data bytes",
]
ANCHORS = [
    ("pycomm3/slc_driver.py", "parse_tag"), ("pycomm3/slc_driver.py", "SLCDriver._read_tag"), ("pycomm3/slc_driver.py", "SLCDriver._write_tag"),
    ("pycomm3/slc_driver.py", "writeable_value"), ("pycomm3/slc_driver.py", "_parse_read_reply"), ("pycomm3/slc_driver.py", "get_bit"),
    ("pycomm3/slc_driver.py", "request_status"), ("pycomm3/slc_driver.py", "SLCDriver._msg_start"),
]
FILES = {"N": [7, 9, 120, 254, 255], "B": [3, 10, 13, 253], "F": [8, 11, 200], "L": [12, 14], "T": [4, 20], "C": [5, 21]}
# files the data table does not hold, or holds with another type: the controller answers with an error status
ABSENT = {"N": [30, 8, 3], "B": [40, 7], "F": [50, 7], "L": [60, 9], "T": [70, 5], "C": [71, 4]}


def gen_address(rng, for_write, files=FILES):
    r = rng.random()
    FILES = files
    case = (lambda s: s.lower()) if rng.random() < 0.3 else (lambda s: s)
    elem = rng.choice([0, 1, 2, 15, 16, 100, 253, 254, 255, rng.randrange(256)])
    if r < 0.30:
        t = rng.choice("NBFL")
        f = rng.choice(FILES[t])
        if rng.random() < 0.35:
            # reads up to the 236 data bytes a PCCC typed read carries (replies of 257..280 bytes cross the 256-byte recv of the
            # transport); a quarter of the writes are as large (up to 234 data bytes: requests of about 260 bytes, beyond what a
            # connection smaller than the standard 500 bytes would carry)
            big = rng.random() < (0.25 if for_write else 0.4)
            top_ = (117 if for_write else 118) if t in "NB" else (58 if for_write else 59)
            cnt = rng.randint(2, min(top_ if big else (40 if t in "NB" else 20), 256 - elem)) if elem < 255 else None
            if cnt:
                return case(f"{t}{f}:{elem}") + "{%d}" % cnt
        return case(f"{t}{f}:{elem}")
    if r < 0.45:
        t = rng.choice("NBL")   # bit reads AND bit writes, also on long files (bits 0..15 of the element's low word)
        return case(f"{t}{rng.choice(FILES[t])}:{elem}/{rng.randrange(16)}")
    if r < 0.60:
        return case(f"B{rng.choice(FILES['B'])}/{rng.choice([0, 1, 15, 16, 17, 31, 32, 255, 256, 4080, 4094, 4095, rng.randrange(4096)])}")
    if r < 0.70:
        return case(f"S:{elem}" + (f"/{rng.randrange(16)}" if rng.random() < 0.5 else ""))
    if r < 0.85:
        t = rng.choice("IO")
        s = f"{t}:{elem}"
        if rng.random() < 0.5:
            s += f".{rng.randrange(4)}"
        if rng.random() < 0.5:
            s += f"/{rng.randrange(16)}"
        return case(s)
    if for_write:
        return case(f"N{rng.choice(FILES['N'])}:{elem}")
    t = rng.choice("TC")
    sub = rng.choice(["PRE", "ACC"] + list(refslc.CT_BITS[t]))
    return f"{case(t)}{rng.choice(FILES[t])}:{elem}.{sub if rng.random() < 0.7 else sub.lower()}"


def gen_bad(rng):
    return rng.choice([
        f"N0:{rng.randrange(256)}", f"N{rng.choice([256, 300, 999])}:1", f"N7:{rng.choice([256, 257, 300, 999, 1000])}", f"N7:1/{rng.choice([16, 17, 99, 123])}",
        f"B3/{rng.choice([4096, 5000, 9999])}", f"B0/5", f"B{rng.choice([256, 999])}/5", f"F8:{rng.choice([256, 999])}", f"L12:{rng.choice([256, 1000])}",
        f"{rng.choice('DEGHJKQUVWXYZ')}7:1", f"S:{rng.choice([256, 999])}", f"S:1/{rng.choice([16, 20])}", f"I:{rng.choice([256, 999])}", f"O:1/{rng.choice([16, 99])}",
        f"T{rng.choice([0, 256])}:1.PRE", f"C5:{rng.choice([256, 999])}.ACC", f"B3:1/{rng.choice([16, 44])}",
        f"{rng.choice('NBL')}0:{rng.randrange(4)}/{rng.randrange(16)}", f"{rng.choice('nb')}0:1/3", f"F0:1", f"L{rng.choice([256, 300])}:1/2",
        # input / output elements beyond 255 in each of their forms (word, word of a slot, bit, bit of a word of a slot)
        f"{rng.choice('IO')}:{rng.choice([256, 300, 999])}/{rng.randrange(16)}", f"{rng.choice('IO')}:{rng.choice([256, 999])}.{rng.randrange(4)}",
        f"{rng.choice('IOio')}:{rng.choice([256, 257, 999])}.{rng.randrange(4)}/{rng.randrange(16)}",
    ])


def form_of(text, a):
    return "Bf/n" if "/" in text and ":" not in text else "ct" if a["ctsub"] else "bit" if a["bit"] is not None else "count" if a["count"] > 1 else "word"


def value_for(a, rng):
    ty = a["type"]
    if a["bit"] is not None:
        # a bit is written from a truth value: True / False, and as often 1 / 0 (what a caller holding an integer passes)
        return rng.choice([True, False, 1, 0])

    def one():
        if ty == "F":
            return struct.unpack("<f", struct.pack("<f", rng.choice([0.0, 1.5, -2.25, 3.4e38, 1e-40, rng.uniform(-1e6, 1e6)])))[0]
        if ty == "L":
            return rng.choice([0, 1, -1, 2 ** 31 - 1, -2 ** 31, rng.randint(-2 ** 31, 2 ** 31 - 1)])
        return rng.choice([0, 1, -1, 32767, -32768, rng.randint(-32768, 32767)])
    if a["count"] > 1:
        return [one() for _ in range(a["count"] + rng.choice([0, 0, 2]))]
    return one()


def is_tag(x):
    import pycomm3
    return isinstance(x, pycomm3.Tag)   # (a Tag is a named tuple: "not a list / tuple" would be the wrong test)


def values_match(ty, want, got):
    if isinstance(want, list):
        return isinstance(got, list) and len(want) == len(got) and all(values_match(ty, w, g) for w, g in zip(want, got))
    if ty == "F" and isinstance(want, float):
        return isinstance(got, float) and (struct.pack("<f", want) == struct.pack("<f", got) or (want != want and got != got))
    return type(want) is type(got) and want == got


def run(ctx):
    res = common.Result("C18")
    import pycomm3 as p
    rng = ctx.rng()
    quick = ctx.quick
    RequestError = p.RequestError
    nscen = 6 if quick else 40
    for sci in range(nscen):
        try:
            b = Bench(rng)
            tab = refslc.DataTable.random(rng, short=sci % 2 == 1)
            dev = refslc.SLCDevice(rt.Identity(name="1747-L552/C SLC 5/05"), rng, b.log, tab)
            pol = rt.Policy()
            pol.accept_large_fo = rng.random() < 0.5
            if sci % 3 == 1:
                # the session handle is the target's choice - also one whose bytes look like something else in the frame (0xCB is the
                # reply code of the Execute PCCC service, 0x4B the request code, 0x0F the PCCC command)
                pol.next_session_handle = rng.choice([0x000000CB, 0x0000CB00, 0x00CB0000, 0xCB000000, 0x0000004B, 0x4B000000, 0x0F000000, 0x00070000])
                res.count("sessions-whose-handle-looks-like-a-protocol-marker")
            # half of the nodes detect duplicates the DF1 way: a command with the transaction number of the previous one is not executed
            # again, its reply is repeated
            dev.duplicate_detection = sci % 2 == 0
            t = rt.RefTarget(rng, front=dev, routes={((1, 0),): dev}, policy=pol, log=b.log)
            b.set_target(t)
            drv = p.SLCDriver(b.host)
            st, out = b.call("open", drv.open)
            if st != "ok" or not out:
                res.ev()
                res.violation("open-failed", f"SLCDriver.open() -> {out!r:.200}", None)
                continue

            def check_cmd(a, text, fnc):
                c = dev.commands[-1]
                want = (a["file"], a["type"], a["element"], a["sub"])
                got = (c.get("file"), c.get("type"), c.get("element"), c.get("sub"))
                if c.get("fnc") != fnc or got != want:
                    res.violation(f"wrong-address:{form_of(text, a)}",
                                  f"{text!r}: the controller received FNC {c.get('fnc')!r:} file/type/element/sub {got}; the address denotes {want} (raw {c.get('raw', b'').hex()})", {"address": text})
                    return False
                return True

            ops = 700 if quick else 3000
            # every binary-file bit number once (reads), spread over the scenarios / shards
            bn = [n for n in range(4096) if (n + sci) % (nscen * ctx.nshards) == ctx.shard * nscen % (nscen * ctx.nshards)] if False else \
                 [n for n in range(4096) if n % (nscen * ctx.nshards) == sci * ctx.nshards + ctx.shard]
            work = [("read", f"B{rng.choice(FILES['B'])}/{n}") for n in bn]
            for _ in range(ops):
                r = rng.random()
                if r < 0.04:
                    # several addresses in ONE read() call - among them bits of the same I/O slot in different words, the same word
                    # twice, a word and one of its bits: each result answers its own address
                    e_, b_ = rng.randrange(256), rng.randrange(16)
                    io = rng.choice("IO")
                    group = rng.choice([
                        [f"{io}:{e_}.{w}/{b_}" for w in rng.sample(range(4), rng.choice([2, 3]))],
                        [f"{io}:{e_}.{rng.randrange(4)}/{x}" for x in rng.sample(range(16), 3)],
                        [f"N7:{e_}", f"N7:{e_}/{b_}", f"N7:{(e_ + 1) % 256}/{b_}"],
                        [gen_address(rng, False) for _ in range(rng.choice([2, 4]))],
                    ])
                    work.append(("multiread", group))
                    # ... and several addresses in ONE write() call: every one of them is written
                    es_ = rng.sample(range(200), 4)
                    work.append(("multiwrite", rng.sample([f"N7:{es_[0]}", f"N7:{es_[1]}", f"B3:{es_[2]}", f"F8:{es_[3]}", f"N7:{es_[2]}"], rng.choice([2, 3, 4]))))
                elif r < 0.05:
                    work.append((rng.choice(["read", "write"]), gen_address(rng, rng.random() < 0.5, ABSENT)))
                elif r < 0.08:
                    work.append(("badvalue", gen_address(rng, True)))
                elif r < 0.5:
                    work.append(("read", gen_address(rng, False)))
                elif r < 0.9:
                    work.append(("write", gen_address(rng, True)))
                else:
                    work.append(("bad", gen_bad(rng)))
            rng.shuffle(work)
            for op, text in work:
                if op == "multiread":
                    parsed = [(tx, refslc.parse_address(tx)) for tx in text]
                    parsed = [(tx, a_) for tx, a_ in parsed if isinstance(a_, dict) and refslc.device_accepts(tab, a_)]
                    if len(parsed) < 2:
                        continue
                    st, tags_ = b.call("read", drv.read, *[tx for tx, _ in parsed])
                    res.ev()
                    res.seen("multiread", len(parsed), parsed[0][1]["type"], len({a_["sub"] for _, a_ in parsed}) > 1)
                    if st != "ok" or not isinstance(tags_, list) or len(tags_) != len(parsed):
                        res.violation("multi-address-read-shape", f"read{tuple(tx for tx, _ in parsed)!r} -> {tags_!r:.160}", {"addresses": [tx for tx, _ in parsed]})
                        continue
                    for (tx, a_), tg_ in zip(parsed, tags_):
                        want = refslc.expected_read(tab, a_)
                        if not tg_ or not values_match(a_["type"], want, tg_.value):
                            res.violation("multi-address-read-wrong-value", f"read{tuple(t_ for t_, _ in parsed)!r}: the result for {tx!r} is {tg_!r:.120}; the data table holds {want!r:.60}",
                                          {"addresses": [t_ for t_, _ in parsed], "address": tx})
                            break
                    continue
                if op == "multiwrite":
                    parsed = [(tx, refslc.parse_address(tx)) for tx in text]
                    parsed = [(tx, a_) for tx, a_ in parsed if isinstance(a_, dict) and refslc.device_accepts(tab, a_)]
                    if len(parsed) < 2:
                        continue
                    if rng.random() < 0.35:
                        # the same address twice in one call (set, then reset): two requests, two results, the later value stays
                        parsed.insert(rng.randrange(1, len(parsed) + 1), parsed[0])
                    vals_ = [value_for(a_, rng) for _, a_ in parsed]
                    last_ = {tx: v_ for (tx, _), v_ in zip(parsed, vals_)}
                    before_ = tab.snapshot()
                    st, tags_ = b.call("write", drv.write, *[(tx, v_) for (tx, _), v_ in zip(parsed, vals_)])
                    res.ev()
                    res.seen("multiwrite", len(parsed), tuple(sorted({a_["type"] for _, a_ in parsed})))
                    wit_ = {"addresses": [tx for tx, _ in parsed], "values": vals_}
                    if st != "ok" or not isinstance(tags_, list) or len(tags_) != len(parsed) or not all(bool(t_) for t_ in tags_):
                        res.violation("multi-address-write-fails", f"write{tuple((tx, v_) for (tx, _), v_ in zip(parsed, vals_))!r:.160} -> {tags_!r:.200}", wit_)
                        continue
                    allowed_ = set()
                    for (tx, a_), v_ in zip(parsed, vals_):
                        v_ = last_[tx]
                        got_ = refslc.expected_read(tab, a_)
                        if not values_match(a_["type"], v_, got_):
                            res.violation("multi-address-write-not-applied", f"write{tuple(t_ for t_, _ in parsed)!r} reported success for every address; {tx!r} holds {got_!r}, written {v_!r}", wit_)
                            break
                        s0_ = tab.word_index(a_["type"], a_["element"], a_["sub"])
                        allowed_ |= {(a_["file"], s0_ + i_) for i_ in range(refslc.WORDS_PER_ELEMENT[a_["type"]])}
                    after_ = tab.snapshot()
                    changed_ = {(fn_, i_) for fn_, (_, w_) in after_.items() for i_, (x_, y_) in enumerate(zip(w_, before_[fn_][1])) if x_ != y_}
                    if changed_ - allowed_:
                        res.violation("multi-address-write-collateral", f"write{tuple(t_ for t_, _ in parsed)!r} changed words {sorted(changed_ - allowed_)[:4]} that no address of the call denotes", wit_)
                    continue
                a = refslc.parse_address(text)
                if op == "bad":
                    if not (isinstance(a, tuple) and a[0] == "reject"):
                        res.dont_care("bad-address-not-in-a-listed-rejection-class")
                        continue
                    ncmd = len(dev.commands)
                    # alone, or among valid addresses of the same call (first / middle / last): rejected all the same
                    r_ = rng.random()
                    others = [f"N7:{rng.randrange(10)}", f"B3:{rng.randrange(4)}"]
                    pos = rng.randrange(3)
                    if r_ < 0.3:
                        st, out = b.call("read", drv.read, text)
                    elif r_ < 0.55:
                        st, out = b.call("write", drv.write, (text, 1))
                    elif r_ < 0.8:
                        st, out = b.call("read", drv.read, *(others[:pos] + [text] + others[pos:]))
                    else:
                        st, out = b.call("write", drv.write, *([(o_, 1) for o_ in others[:pos]] + [(text, 1)] + [(o_, 1) for o_ in others[pos:]]))
                    res.ev()
                    res.seen("reject", a[1], text[:1].upper(), "alone" if r_ < 0.55 else "among-valid")
                    if st != "exc" or not isinstance(out, RequestError):
                        res.violation(f"malformed-address-accepted:{a[1]}", f"{text!r} ({a[1]}) -> {out!r:.160} instead of RequestError; controller received {len(dev.commands) - ncmd} command(s)", {"address": text})
                    continue
                if not isinstance(a, dict):
                    res.dont_care(a[1])
                    continue
                form = "Bf/n" if "/" in text and ":" not in text else "ct" if a["ctsub"] else "bit" if a["bit"] is not None else "count" if a["count"] > 1 else "word"
                ecls = "255" if a["element"] == 255 else "254" if a["element"] == 254 else "0" if a["element"] == 0 else "mid"
                res.seen(op, form, a["type"], ecls, a["file"] in (1, 255), a["bit"], text != text.upper())
                wit = {"address": text, "denotes": {k: v for k, v in a.items() if k != "kind"}}
                if op == "badvalue":
                    # a value the element type cannot hold, or fewer values than {count}: nothing may be written and success may not be reported
                    if a["ctsub"] or a["bit"] is not None or not refslc.device_accepts(tab, a):
                        continue
                    lim = 2 ** 31 if a["type"] == "L" else 2 ** 15
                    badv = rng.choice([lim, -lim - 1, lim * 4, "x", None, [1, 2]]) if a["type"] != "F" else rng.choice(["x", None, [1.0], 1e39, -1e39])
                    kind = "value"
                    if a["count"] > 1:
                        if rng.random() < 0.5:
                            badv, kind = [value_for(dict(a, count=1), rng) for _ in range(rng.randrange(0, a["count"]))], "short"
                        else:
                            badv = [value_for(dict(a, count=1), rng) for _ in range(a["count"])]
                            badv[rng.randrange(a["count"])] = rng.choice([lim * 2, "x", None]) if a["type"] != "F" else rng.choice(["x", None])
                    before = tab.snapshot()
                    st, tg_ = b.call("write", drv.write, (text, badv))
                    res.ev()
                    res.seen("badvalue", kind, form, a["type"])
                    if tab.snapshot() != before:
                        res.violation(f"bad-value-written:{kind}", f"write({text!r}, {badv!r:.80}) changed the data table (-> {tg_!r:.120})", wit)
                        for n, (ty_, w) in before.items():
                            tab.files[n] = (ty_, list(w))
                    elif st == "ok" and tg_:
                        res.violation(f"bad-value-success:{kind}", f"write({text!r}, {badv!r:.80}) reported success {tg_!r:.120} although nothing was written", wit)
                    elif st == "exc" and not isinstance(tg_, p.PycommError):
                        res.violation(f"bad-value-foreign-exception:{kind}:{type(tg_).__name__}", f"write({text!r}, {badv!r:.80}) raised {tg_!r:.160}", wit)
                    continue
                forced = None
                if rng.random() < 0.03:
                    forced = dev.force_sts = rng.choice([0x10, 0x20, 0x30, 0x40, 0x50, 0x60, 0x70, 0x80, 0x90, 0xB0, 0xF0, rng.randrange(1, 256)])
                    dev.force_sts_data = rng.choice([b"", b"", bytes([0x0B]), bytes([0x0B, 0x00]), bytes(rng.randrange(256) for _ in range(rng.choice([2, 4, 8, 20])))])
                if forced is not None or not refslc.device_accepts(tab, a):
                    # the address is in the grammar but the controller does not hold it: it answers with an error status,
                    # the result must be a falsy Tag carrying a status text, and nothing may change
                    if a["ctsub"] and op == "write":
                        dev.force_sts = None
                        continue
                    before = tab.snapshot()
                    ncmd = len(dev.commands)
                    st, tg_ = b.call("read", drv.read, text) if op == "read" else b.call("write", drv.write, (text, value_for(a, rng)))
                    dev.force_sts = None
                    res.ev()
                    sts = dev.commands[-1].get("sts") if len(dev.commands) > ncmd else None
                    res.seen("device-refuses", op, form, a["type"], sts, forced is not None)
                    if tab.snapshot() != before:
                        res.violation(f"refused-{op}-changed-table", f"{op}({text!r}) on an address the controller does not hold changed the data table", wit)
                        for n, (ty_, w) in before.items():
                            tab.files[n] = (ty_, list(w))
                    elif st != "ok":
                        res.violation(f"refused-{op}-raises:{type(tg_).__name__}", f"{op}({text!r}): controller status {sts!r}; the call raised {tg_!r:.160} instead of returning a falsy Tag", wit)
                    elif not is_tag(tg_):
                        res.violation(f"result-shape:{op}", f"{op}({text!r}) with ONE address returned {tg_!r:.160} - a single Tag is documented", wit)
                    elif tg_ or not getattr(tg_, "error", None) or tg_.value is not None:
                        res.violation(f"refused-{op}-not-falsy", f"{op}({text!r}): controller answered status {sts!r}; result {tg_!r:.160}", wit)
                    elif len(dev.commands) > ncmd and forced is None:
                        check_cmd(a, text, 0xA2 if op == "read" else 0xAB)
                    continue
                if op == "read":
                    want = refslc.expected_read(tab, a)
                    st, tg_ = b.call("read", drv.read, text)
                    res.ev()
                    if st != "ok":
                        res.violation(f"read-raises:{form}:{type(tg_).__name__}", f"read({text!r}) raised {tg_!r:.160}", wit)
                        continue
                    if not is_tag(tg_):
                        res.violation("result-shape:read", f"read({text!r}) with ONE address returned {tg_!r:.160} - a single Tag is documented", wit)
                        continue
                    if not tg_:
                        res.violation(f"read-fails:{'elem255' if a['element'] == 255 else 'file255' if a['file'] == 255 else form}",
                                      f"read({text!r}) -> {tg_!r:.200}; data table holds {want!r:.60}", wit)
                        continue
                    ok_cmd = check_cmd(a, text, 0xA2)
                    if not values_match(a["type"], want, tg_.value):
                        res.violation(f"read-wrong-value:{form}", f"read({text!r}) = {tg_.value!r:.100}; data table holds {want!r:.100}", wit)
                    if a["count"] > 1 and ok_cmd:
                        c = dev.commands[-1]
                        wsz = 2 * refslc.WORDS_PER_ELEMENT[a["type"]] * a["count"]
                        if c.get("size") != wsz:
                            res.violation("count-size", f"read({text!r}) asked the controller for {c.get('size')} bytes; {a['count']} elements are {wsz} bytes", wit)
                    continue
                # ---- write ------------------------------------------------------------------------------------------------------
                if a["ctsub"]:
                    continue
                val = value_for(a, rng)
                before = tab.snapshot()
                # the value belongs to the caller: a list (also one longer than {count}) is what it was after the call, and a tuple
                # serves as well as a list
                sent_ = tuple(val) if isinstance(val, list) and rng.random() < 0.2 else val
                snap_ = list(val) if isinstance(val, list) else None
                st, tg_ = b.call("write", drv.write, (text, sent_))
                res.ev()
                if snap_ is not None and isinstance(sent_, list) and sent_ != snap_:
                    res.violation("write-modified-the-callers-value", f"write(({text!r}, <list of {len(snap_)}>)) left the caller's list as {sent_!r:.80} (was {snap_!r:.80})", wit)
                    val = snap_
                if st != "ok":
                    res.violation(f"write-raises:{form}:{type(tg_).__name__}", f"write({text!r}, {val!r:.60}) raised {tg_!r:.160}", wit)
                    continue
                if not is_tag(tg_):
                    res.violation("result-shape:write", f"write(({text!r}, ...)) with ONE address returned {tg_!r:.160} - a single Tag is documented", wit)
                    continue
                if not tg_:
                    res.violation(f"write-fails:{'elem255' if a['element'] == 255 else 'file255' if a['file'] == 255 else form}",
                                  f"write({text!r}, {val!r:.60}) -> {tg_!r:.200}", wit)
                    continue
                check_cmd(a, text, 0xAB)
                ty, words = tab.files[a["file"]]
                base = tab.word_index(ty, a["element"], a["sub"])
                exp_words = dict()
                if a["bit"] is not None:
                    old = before[a["file"]][1][base]
                    exp_words[base] = (old | (1 << a["bit"])) if val else (old & ~(1 << a["bit"]) & 0xFFFF)
                else:
                    vals = (val if isinstance(val, list) else [val])[: a["count"]]
                    wpe = refslc.WORDS_PER_ELEMENT[ty] if ty not in ("I", "O") else 1
                    for i, v in enumerate(vals):
                        if ty == "F":
                            raw = struct.pack("<f", v)
                        elif ty == "L":
                            raw = int(v).to_bytes(4, "little", signed=True)
                        else:
                            raw = int(v).to_bytes(2, "little", signed=True)
                        for k in range(len(raw) // 2):
                            exp_words[base + i * wpe + k] = raw[2 * k] | (raw[2 * k + 1] << 8)
                bad = None
                for fn, (fty, ws) in tab.files.items():
                    ob = before[fn][1]
                    for wi, wv in enumerate(ws):
                        want = exp_words.get(wi, ob[wi]) if fn == a["file"] else ob[wi]
                        if wv != want:
                            bad = (fn, wi, ob[wi], wv, want)
                            break
                    if bad:
                        break
                if bad:
                    inside = bad[0] == a["file"] and bad[1] in exp_words
                    res.violation(f"{'wrong-data-written' if inside else 'collateral-change'}:{form}",
                                  f"write({text!r}, {val!r:.60}): word {bad[1]} of file {bad[0]} is {bad[3]:#06x} (was {bad[2]:#06x}), expected {bad[4]:#06x}", wit)
                    tab.files.update({n: (ty_, list(w)) for n, (ty_, w) in before.items()})
                    for n, (ty_, w) in before.items():
                        tab.files[n] = (ty_, list(w))
                    continue
                st, back = b.call("read", drv.read, text)
                want = refslc.expected_read(tab, a)
                res.ev()
                if st != "ok" or not is_tag(back) or not back or not values_match(a["type"], want, back.value):
                    res.violation(f"read-back-differs:{form}", f"write({text!r}, {val!r:.60}) then read -> {back!r:.160}; table holds {want!r:.60}", wit)
                exp_val = (val[: a["count"]] if isinstance(val, list) else val)
                if a["bit"] is None and not values_match(a["type"], want, exp_val if not isinstance(exp_val, list) or len(exp_val) > 1 else exp_val[0]):
                    res.violation(f"stored-value-differs:{form}", f"write({text!r}, {val!r:.60}) stored {want!r:.60}", wit)
            if sci == 0:
                res.sample({"address": "B3/17", "denotes": "file 3, element 1, bit 1", "last_command": {k: v for k, v in dev.commands[-1].items() if k != "raw"}})
            res.count("pccc-commands", len(dev.commands))
            b.call("close", drv.close)
            b.close()
        except ScenarioDead:
            continue
    return res
