"""C19 - code tables are total, bidirectional, case-insensitive lookups.  Exhaustive (finite)."""
import importlib
import json
import os
import pkgutil

from vlib import common

LEVEL = "exploration"
EXHAUSTIVE = True
SHARDS = {"quick": 2, "thorough": 2}   # the same exhaustive sweep twice: shard 1 runs under `python -O` with DEBUG logging
TIMEOUT = {"quick": 300, "thorough": 600}
MIN_EVALUATIONS = {"quick": 3000, "thorough": 3000}  # fewer oracle evaluations than this means the workload collapsed: inconclusive
RULE = ("enumerates every EnumMap subclass found by walking the pycomm3 package x every public member x "
        "9 letter-casing classes (name->code by [], get, get with a positional / keyword default, membership), every member code (code->name by [] "
        "and get, membership, name carries the code), 40 non-member probes per table for membership consistency, "
        "DataTypes.get_type for every code, Services.from_reply for every service, status text for 0..255, "
        "every (status, extended status) pair of EXTEND_CODES at every encodable size; every (table, member, code) of the CIP code lists as "
        "shipped at the pinned commit (vlib/data/code_tables.json) must still resolve both ways; 40 synthetic tables defined through the same "
        "EnumMap base with lower/UPPER/Title/mixed-case member names, int or bytes codes, caps-only and one-way options; distinct = "
        "(table, member|code, casing-class|probe-kind) triples actually evaluated")
ASSUMPTIONS = [
    "members of a table are the public non-method attributes of the class body (read from vars(cls), not from the table's own index)",
    "a reverse lookup may return any member name whose value carries the code (duplicated codes exist: null/uccm, PCCC INT files)",
    "status text for unknown codes must contain the two-digit hex code (case-insensitive)",
    "the live status table is not its own oracle for 'known' (encapsulation statuses 0x64 / 0x65 / 0x69 merged into it would otherwise pass as known): "
    "the 40 CIP general status codes the library lists at the pinned commit (golden list in vlib/data/code_tables.json: 1-22, 26-31, 34, 37-41, 209, 251-255) "
    "and every (status, extended) pair of the pinned commit keep a text; codes in the range CIP reserves (0x30-0xCF) have no text of their own, "
    "theirs must carry the hex code; for the remaining codes (defined by CIP, not listed at the pinned commit) either form is accepted",
]
ANCHORS = [
    ("pycomm3/map.py", "MapMeta.__new__"), ("pycomm3/map.py", "MapMeta.__getitem__"),
    ("pycomm3/map.py", "MapMeta.get"), ("pycomm3/map.py", "MapMeta.__contains__"),
    ("pycomm3/cip/data_types.py", "DataTypes.get_type"), ("pycomm3/cip/services.py", "Services.from_reply"),
    ("pycomm3/packets/util.py", "get_service_status"), ("pycomm3/packets/util.py", "get_extended_status"),
]


def casings(name, rng):
    out = {
        "orig": name, "lower": name.lower(), "upper": name.upper(), "title": name.title(),
        "swap": name.swapcase(), "cap": name.capitalize(),
        "alt": "".join(c.upper() if i % 2 else c.lower() for i, c in enumerate(name)),
        "alt2": "".join(c.lower() if i % 2 else c.upper() for i, c in enumerate(name)),
        "rand": "".join(c.upper() if rng.random() < 0.5 else c.lower() for c in name),
    }
    return out


SENTINEL = object()


def same(a, b):
    if isinstance(a, type) or isinstance(b, type):
        return a is b
    try:
        return type(a) is type(b) and a == b
    except Exception:
        return False


def same_code(M, name, code, short):
    try:
        v = M[name]
    except Exception:  # noqa
        return False
    if short == "DataTypes":
        return getattr(v, "code", None) == code
    return same(v, code)


def run(ctx):
    res = common.Result("C19")
    import pycomm3
    from pycomm3.map import EnumMap

    rng = ctx.rng()
    tables = {}
    for m in pkgutil.walk_packages(pycomm3.__path__, "pycomm3."):
        mod = importlib.import_module(m.name)
        for v in vars(mod).values():
            if isinstance(v, type) and issubclass(v, EnumMap) and v is not EnumMap:
                tables[f"{v.__module__}.{v.__qualname__}"] = v
    res.count("tables", len(tables))
    if len(tables) < 10:
        res.violation("tables-missing", f"only {len(tables)} EnumMap tables found", sorted(tables))

    def attempt(kind, tname, fn, *a):
        try:
            return True, fn(*a)
        except Exception as e:  # a lookup that raises is a failed lookup
            return False, e

    for tname, M in sorted(tables.items()):
        members = {k: v for k, v in vars(M).items()
                   if not k.startswith("_") and not isinstance(v, (classmethod, staticmethod, property))
                   and not callable(v) or (isinstance(v, type) and not k.startswith("_"))}
        members = {k: v for k, v in members.items() if not k.startswith("_")}
        bidir = M.__dict__.get("_bidirectional_", True)
        vkey = M.__dict__.get("_value_key_", None)
        short = tname.rsplit(".", 1)[1]
        res.count("members", len(members))
        # ---- name -> code, all casings ----------------------------------------------------
        for name, val in sorted(members.items()):
            for cls_, spelled in casings(name, rng).items():
                res.ev()
                res.seen(short, name, cls_)
                ok, got = attempt("getitem", short, M.__getitem__, spelled)
                if not ok or not same(got, val):
                    res.violation(f"name-getitem:{cls_}", f"{short}[{spelled!r}] -> {got!r}, expected {val!r}",
                                  {"table": tname, "name": name, "spelled": spelled})
                ok, got = attempt("get", short, M.get, spelled)
                if not ok or not same(got, val):
                    res.violation(f"name-get:{cls_}", f"{short}.get({spelled!r}) -> {got!r}, expected {val!r}",
                                  {"table": tname, "name": name, "spelled": spelled})
                # `get` with a default (positional and keyword): the default is for keys the table lacks, a member resolves as ever
                for how_, call_ in (("get-default", lambda s_: M.get(s_, SENTINEL)), ("get-default-kw", lambda s_: M.get(s_, default=SENTINEL))):
                    ok, got = attempt(how_, short, call_, spelled)
                    if not ok or not same(got, val):
                        res.violation(f"name-{how_}:{cls_}", f"{short}.get({spelled!r}, <default>) -> {'the default' if got is SENTINEL else repr(got)}, expected {val!r}",
                                      {"table": tname, "name": name, "spelled": spelled})
                ok, got = attempt("contains", short, M.__contains__, spelled)
                if not ok or got is not True:
                    res.violation(f"name-contains:{cls_}", f"{spelled!r} in {short} -> {got!r}",
                                  {"table": tname, "name": name, "spelled": spelled})
            # attribute access is the table's definition
            if not same(getattr(M, name), val):
                res.violation("attr", f"{short}.{name} changed", None)
        # ---- code -> name ------------------------------------------------------------------
        if bidir:
            for name, val in sorted(members.items()):
                code = vkey(val) if vkey else val
                try:
                    hash(code)
                except TypeError:
                    res.dont_care("unhashable-code")
                    continue
                carriers = {n.lower() for n, v2 in members.items()
                            if same((vkey(v2) if vkey else v2), code)}
                for how, fn in (("getitem", M.__getitem__), ("get", M.get)):
                    res.ev()
                    res.seen(short, "code", name, how)
                    ok, got = attempt(how, short, fn, code)
                    if not ok or not isinstance(got, str) or got.lower() not in carriers:
                        res.violation(f"code-{how}", f"{short} {how}({code!r}) -> {got!r}, expected one of {sorted(carriers)}",
                                      {"table": tname, "code": repr(code)})
                    else:
                        ok_b, back = attempt("getitem", short, M.__getitem__, got)
                        if not ok_b:
                            res.violation(f"code-{how}-roundtrip", f"{short} {how}({code!r}) -> {got!r}, but {short}[{got!r}] raises {back!r:.80}", None)
                        elif not same(back, val) and not same((vkey(back) if vkey else back), code):
                            res.violation(f"code-{how}-roundtrip", f"{short}[{got!r}] does not carry {code!r}", None)
                ok, got = attempt("contains", short, M.__contains__, code)
                res.ev()
                if not ok or got is not True:
                    res.violation("code-contains", f"{code!r} in {short} -> {got!r}", {"table": tname})
        # ---- membership consistency on non-members ---------------------------------------
        probes = [f"zz_{rng.randrange(10**6)}" for _ in range(10)] + ["", " ", "NOP ", "_members_", "attributes"]
        probes += [rng.randrange(1 << 16) for _ in range(8)] + [bytes([rng.randrange(256)]) for _ in range(8)]
        probes += [bytes([rng.randrange(256), rng.randrange(256)]) for _ in range(4)] + [None, 1.5, (1, 2), -1, 2 ** 40]
        for n in list(members)[:6]:
            probes += [n + "_", n[:-1], n + " "]
        for p in probes:
            res.ev()
            res.seen(short, "probe", type(p).__name__, repr(p)[:12])
            ok1, inn = attempt("contains", short, M.__contains__, p)
            ok2, got = attempt("get", short, M.get, p)
            if not (ok1 and ok2) or bool(inn) != (got is not None):
                res.violation("membership-consistency",
                              f"{short}: ({p!r} in M) = {inn!r} but M.get -> {got!r}", {"table": tname})
            ok3, got3 = attempt("getitem", short, M.__getitem__, p)
            if ok1 and ok3 != bool(inn):
                res.violation("membership-getitem", f"{short}: ({p!r} in M) = {inn!r} but M[...] {'ok' if ok3 else 'raises'}",
                              {"table": tname})

    # ---- the CIP code lists as shipped at the pinned commit: every (table, member, code) must still resolve both ways ----------
    import json
    import os
    gold = json.load(open(os.path.join(common.VERIF_DIR, "vlib", "data", "code_tables.json")))["tables"]
    for tname, mem in sorted(gold.items()):
        M = tables.get(tname)
        short = tname.rsplit(".", 1)[1]
        if M is None:
            res.ev()
            res.violation("table-removed", f"code table {tname} no longer exists", None)
            continue
        for name, spec in sorted(mem.items()):
            res.ev()
            res.seen("gold", short, name)
            ok, got = attempt("getitem", short, M.__getitem__, name)
            if "bytes" in spec:
                want = bytes.fromhex(spec["bytes"])
                good = ok and got == want
                rev_key = want
            elif "int" in spec:
                want = spec["int"]
                good = ok and got == want and not isinstance(got, bool)
                rev_key = want
            elif "type" in spec:
                want = (spec["type"], spec["code"])
                good = ok and isinstance(got, type) and (got.__name__, getattr(got, "code", None)) == want
                rev_key = spec["code"] if short == "DataTypes" else None
            else:
                aid = getattr(got, "attr_id", None) if ok else None
                want = spec["attr_id"]
                good = ok and (aid.hex() if isinstance(aid, bytes) else aid) == want
                rev_key = None
            if not good:
                res.violation(f"code-list:{short}", f"{short}[{name!r}] -> {got!r}; the CIP code list has {want!r}", {"table": tname, "member": name})
                continue
            if rev_key is not None and M.__dict__.get("_bidirectional_", True):
                ok2, back = attempt("getitem", short, M.__getitem__, rev_key)
                if not ok2 or not isinstance(back, str) or not same_code(M, back, rev_key, short):
                    res.violation(f"code-list-reverse:{short}", f"{short}[{rev_key!r}] -> {back!r}, which does not carry that code", {"table": tname, "member": name})

    # ---- data type codes ------------------------------------------------------------------
    from pycomm3.cip import DataTypes, Services
    dt_members = {k: v for k, v in vars(DataTypes).items() if isinstance(v, type) and not k.startswith("_")}
    for name, typ in sorted(dt_members.items()):
        code = typ.code
        res.ev()
        res.seen("get_type", code)
        try:
            got = DataTypes.get_type(code)
        except Exception as e:
            got = e
        if not isinstance(got, type) or getattr(got, "code", None) != code:
            res.violation("get_type", f"DataTypes.get_type({code:#x}) -> {got!r}", None)
        ok_n, nm = attempt("get", "DataTypes", DataTypes.get, code)
        ok_t, back = attempt("get", "DataTypes", DataTypes.get, nm) if ok_n and isinstance(nm, str) else (False, None)
        if not ok_n or not ok_t or back is None or getattr(back, "code", None) != code:
            res.violation("datatype-code-name", f"DataTypes.get({code:#x}) -> {nm!r}; DataTypes.get of that -> {back!r:.80}", None)
    for bad in (0x01, 0xA0, 0xC0, 0xDF, 0xE0, 0xFF, 0x100, 0x2C1):
        res.ev()
        try:
            got = DataTypes.get_type(bad)
        except Exception as e:
            got = e
        if got is not None and not (isinstance(got, type) and getattr(got, "code", None) == bad):
            res.violation("get_type-unknown", f"DataTypes.get_type({bad:#x}) -> {got!r}", None)

    # ---- reply service -> request service ---------------------------------------------
    sv = {k: v for k, v in vars(Services).items() if isinstance(v, bytes)}
    for name, code in sorted(sv.items()):
        res.ev()
        res.seen("from_reply", name)
        try:
            got = Services.from_reply(bytes([code[0] | 0x80]))
        except Exception as e:
            got = e
        if not isinstance(got, str) or attempt("get", "Services", Services.get, got) != (True, code):
            res.violation("from_reply", f"Services.from_reply({code[0] | 0x80:#x}) -> {got!r}, expected a name of {code!r}", None)

    # ---- the table mechanism itself: tables defined like the library's own, but with the member spellings a maintainer may use next ------
    for ti in range(40):
        names = set()
        while len(names) < rng.randint(1, 8):
            base = "".join(rng.choice("abcdefgh_") for _ in range(rng.randint(1, 10))).strip("_") or "x"
            names.add(rng.choice([base, base.upper(), base.title(), base.swapcase()]) if not base[0].isdigit() else "m" + base)
        if len({n.lower() for n in names}) != len(names):
            continue
        caps, bid = rng.random() < 0.4, rng.random() < 0.8
        vals = rng.sample(range(1, 4000), len(names)) if rng.random() < 0.5 else [bytes([i + 1, rng.randrange(256)]) for i in range(len(names))]
        body = dict(zip(sorted(names), vals))
        ns = dict(body)
        if caps:
            ns["_return_caps_only_"] = True
        if not bid:
            ns["_bidirectional_"] = False
        ok, T = attempt("define", "synthetic", lambda: type(EnumMap)(f"Synthetic{ti}", (EnumMap,), ns))
        res.ev()
        if not ok:
            res.violation("synthetic-table-definition", f"defining an EnumMap with members {sorted(body)} (caps={caps}, bidirectional={bid}) raised {T!r:.120}", None)
            continue
        for name, val in body.items():
            for cls_, spelled in casings(name, rng).items():
                res.ev()
                res.seen("synthetic", cls_, caps, bid, name == name.lower(), name == name.upper())
                r1, r2, r3 = attempt("getitem", "T", T.__getitem__, spelled), attempt("get", "T", T.get, spelled), attempt("contains", "T", T.__contains__, spelled)
                if r1 != (True, val) or r2 != (True, val) or r3 != (True, True):
                    res.violation(f"synthetic-name-lookup:{'lowercase-member' if name == name.lower() else 'cased-member'}",
                                  f"EnumMap with member {name!r} = {val!r}: T[{spelled!r}] -> {r1[1]!r:.60}, T.get -> {r2[1]!r:.60}, in -> {r3[1]!r:.60}", {"members": sorted(body)})
            res.ev()
            r1, r2, r3 = attempt("getitem", "T", T.__getitem__, val), attempt("get", "T", T.get, val), attempt("contains", "T", T.__contains__, val)
            if bid:
                good = all(r[0] for r in (r1, r2, r3)) and isinstance(r1[1], str) and r1[1] == r2[1] and r1[1].lower() == name.lower() and r3[1] is True
                if good and caps and r1[1] != r1[1].upper():
                    good = False
                if not good:
                    res.violation("synthetic-code-lookup", f"EnumMap (caps={caps}) with member {name!r} = {val!r}: T[{val!r}] -> {r1[1]!r:.60}, get -> {r2[1]!r:.60}, in -> {r3[1]!r:.60}", {"members": sorted(body)})
            elif r1[0] or r2 != (True, None) or r3 != (True, False):
                res.violation("synthetic-one-way-table-resolves-codes", f"one-way EnumMap with member {name!r} = {val!r}: T[{val!r}] -> {r1[1]!r:.60}, get -> {r2[1]!r:.60}, in -> {r3[1]!r:.60}", None)

    # ---- status texts -------------------------------------------------------------------
    from pycomm3.cip import EXTEND_CODES, SERVICE_STATUS
    from pycomm3.packets.util import get_extended_status, get_service_status
    # which general status codes carry a text: the CIP general status codes the library lists at the pinned commit (golden list) - the
    # table itself cannot be the oracle for "falling back to a message containing the hex code" (entries merged in from another layer,
    # e.g. encapsulation statuses 0x64 / 0x65 / 0x69, would make those bytes look "known")
    gold_all = json.load(open(os.path.join(common.VERIF_DIR, "vlib", "data", "code_tables.json")))
    gold_status = set(gold_all.get("general_status_codes", []))
    for s in range(256):
        if gold_status:
            res.ev()
            try:
                txt_ = get_service_status(s)
            except Exception as e:  # noqa
                txt_ = e
            if s == 0 and isinstance(txt_, str):
                res.dont_care("status-text-of-success:" + ("fallback" if "00" in txt_ else "own-text"))   # 0 is no error code: any text will do
            elif s not in gold_status and 0x30 <= s <= 0xCF and isinstance(txt_, str) and f"{s:02x}" not in txt_.lower():
                res.violation("status-text-fallback", f"get_service_status({s:#x}) -> {txt_!r}: {s:#x} lies in the range CIP reserves (0x30-0xCF, no general status is defined there), the text must carry the hex code", None)
            elif s not in gold_status and not (0x30 <= s <= 0xCF) and isinstance(txt_, str) and f"{s:02x}" not in txt_.lower():
                res.dont_care("status-text-for-a-code-the-pinned-table-lacks")   # a later release may add texts for defined codes (0x20, 0x23 ...)
            elif s in gold_status and (not isinstance(txt_, str) or not txt_.strip() or txt_.lower().startswith("unknown error")):
                res.violation("status-text-known", f"get_service_status({s:#x}) -> {txt_!r}: a listed CIP general status lost its text", None)
    for pair in gold_all.get("extended_status_pairs", []):
        st_, ext_ = pair
        res.ev()
        try:
            got_ = get_extended_status(bytes([st_, 1]) + ext_.to_bytes(2, "little"), 0) if ext_ <= 0xFFFF else get_extended_status(bytes([st_, 2]) + ext_.to_bytes(4, "little"), 0)
        except Exception as e:  # noqa
            got_ = e
        if not isinstance(got_, str) or not got_.strip():
            res.violation("extended-status-text", f"get_extended_status(status={st_:#x}, ext={ext_:#x}) -> {got_!r}: the pair had a text at the pinned commit", None)
    for s in range(256):
        res.ev()
        res.seen("status", s)
        try:
            txt = get_service_status(s)
        except Exception as e:
            txt = e
        if not isinstance(txt, str) or not txt.strip():
            res.violation("status-text-empty", f"get_service_status({s}) -> {txt!r}", None)
        elif s in SERVICE_STATUS:
            if txt != SERVICE_STATUS[s]:
                res.violation("status-text-known", f"get_service_status({s:#x}) -> {txt!r}", None)
        elif f"{s:02x}" not in txt.lower():
            res.violation("status-text-fallback", f"get_service_status({s:#x}) -> {txt!r} lacks hex code", None)
    for st, tab in sorted(EXTEND_CODES.items()):
        for ext, text in sorted(tab.items()):
            sizes = [(1, ext.to_bytes(2, "little"))] if ext <= 0xFFFF else []
            sizes.append((2, ext.to_bytes(4, "little")))
            for words, enc in sizes:
                for start in (0, 42, 48):
                    res.ev()
                    res.seen("ext", st, ext, words)
                    msg = bytes(start) + bytes([st, words]) + enc + b"tail"
                    try:
                        got = get_extended_status(msg, start)
                    except Exception as e:
                        got = e
                    if not isinstance(got, str) or text not in got:
                        res.violation("extended-status-text",
                                      f"get_extended_status(status={st:#x}, ext={ext:#x}, {words} words) -> {got!r}", None)
    for what, fn in (("Services['ReAd_TaG']", lambda: Services["ReAd_TaG"]), ("DataTypes[0xC4]", lambda: DataTypes[0xC4]), ("get_service_status(0x77)", lambda: get_service_status(0x77))):
        try:
            res.sample({"lookup": what, "result": repr(fn())})
        except Exception as e:  # noqa
            res.sample({"lookup": what, "raised": repr(e)})
    return res
