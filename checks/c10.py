"""C10 - connection lifecycle is safe under any call history and failure point."""
from vlib.bench import ScenarioDead
from vlib import common, lifecycle

LEVEL = "fault_enumeration"
SHARDS = {"quick": 8, "thorough": 16}
TIMEOUT = {"quick": 900, "thorough": 3600}
MIN_EVALUATIONS = {"quick": 8000, "thorough": 8000}  # fewer oracle evaluations than this means the workload collapsed: inconclusive
RULE = ("call histories over {open, close, read, write, big fragmented read, generic_message connected / UCMM / Unconnected Send / connected with unconnected_send=True, list identity, "
        "get_plc_name, with-block without exception / left through a foreign exception / left through the library's own CommError raised by user code} for CIPDriver, LogixDriver (small project, init_tags on/off) and SLCDriver: every history "
        "of length <= 2 (quick) / <= 3 (thorough), the everyday session open / one operation / close for every Logix operation, plus seeded random histories up to length 6 (8) x target policies {large Forward Open accepted, "
        "large refused, all Forward Opens refused, session refused, service error on every k-th request, undecodable ListIdentity reply (header-only error / zero items / truncated item)}; each (history, policy) is first "
        "run fault-free to count its I/O operations N, then re-run with one transport fault at operation k (every k in thorough; in quick a spread "
        "sample plus the first and the last socket operation of every operation of the history) x {send raises, recv raises (reply lost), recv returns EOF, peer vanishes}; after each history faults stop, the driver "
        "is closed, re-opened, used and closed again. Monitors: target-side lifecycle monitor (session before data, Forward Open before connected "
        "data, extended-first/standard-500 order), client-side exception types, step budget, driver.connected and target session/connection "
        "tables after every close; a with block whose body ran has called close() when it is left (whatever earlier blocks on that object did); an open() of a Logix driver during which the fault fired and which still reports success holds the controller's whole tag list. distinct = (driver, history, policy, fault kind, fault position) executed")
ASSUMPTIONS = [
    "connections live in the target until Forward Close, sessions until UnRegisterSession or TCP close; a connection whose Forward Close was destroyed by the injected fault is not counted as a leak",
    "'still reachable' = no fault fired during that close() call and the peer has not vanished",
    "termination = at most 60 000 socket operations per public call",
]
ANCHORS = [
    ("pycomm3/cip_driver.py", "CIPDriver.open"), ("pycomm3/cip_driver.py", "CIPDriver._register_session"), ("pycomm3/cip_driver.py", "with_forward_open"),
    ("pycomm3/cip_driver.py", "CIPDriver._forward_open"), ("pycomm3/cip_driver.py", "CIPDriver.close"), ("pycomm3/cip_driver.py", "CIPDriver._forward_close"),
    ("pycomm3/cip_driver.py", "CIPDriver._un_register_session"), ("pycomm3/cip_driver.py", "CIPDriver.__enter__"), ("pycomm3/cip_driver.py", "CIPDriver.__exit__"),
    ("pycomm3/cip_driver.py", "CIPDriver._send"), ("pycomm3/cip_driver.py", "CIPDriver._receive"),
]


def plan(ctx, rng):
    """(driver kind, history, policy, init_tags)"""
    quick = ctx.quick
    items = []
    L = 2 if quick else 3
    for h in lifecycle.histories(lifecycle.CIP_OPS, L):
        for pol in lifecycle.POLICIES:
            items.append(("cip", h, pol, True))
    for h in lifecycle.histories(lifecycle.LOGIX_OPS, 2):
        for pol in lifecycle.POLICIES:
            if quick and len(h) == 2 and rng.random() < 0.5:
                continue
            items.append(("logix", h, pol, rng.random() < 0.7))
    for h in lifecycle.histories(lifecycle.LOGIX_OPS, 2):
        if len(h) == 1 or rng.random() < (0.4 if quick else 1.0):
            items.append(("micro", h, rng.choice(["large-ok", "large-refused"]), rng.random() < 0.7))
    # the everyday session - open, one operation, close - for every Logix operation, in every run (not left to the random histories):
    # together with the per-operation fault positions below, a failure inside the middle operation is always among the cases
    for kind in ("logix", "micro"):
        for mid in ("read", "write", "read_big", "gm_conn", "plc_name", "with_ok"):
            for pol in ("large-ok", "large-refused"):
                items.append((kind, ("open", mid, "close"), pol, True))
    try:
        from vlib import refslc  # noqa
        for h in lifecycle.histories(lifecycle.SLC_OPS, 2):
            for pol in ("large-ok", "large-refused", "all-fo-refused"):
                items.append(("slc", h, pol, True))
    except ImportError:
        pass
    for _ in range(600 if quick else 5000):
        kind = rng.choice(["cip", "cip", "logix", "micro"])
        ops = lifecycle.CIP_OPS if kind == "cip" else lifecycle.LOGIX_OPS
        h = tuple(rng.choice(ops) for _ in range(rng.randint(3, 6 if quick else 8)))
        # (a Micro800 whose ListIdentity reply is undecodable cannot be recognised as one - the driver would rightly treat it as a
        # ControlLogix and fail on services a Micro800 lacks: that pairing says nothing about the lifecycle and is left out)
        pols = [p_ for p_ in lifecycle.POLICIES if not (kind == "micro" and p_ == "list-identity-broken")]
        items.append((kind, h, rng.choice(pols), rng.random() < 0.7))
    return items


def run(ctx):
    res = common.Result("C10")
    rng = ctx.rng("plan")
    items = plan(ctx, common.rng_for("C10", ctx.seed, 0, "plan"))   # same plan in every shard, partitioned below
    rng = ctx.rng()
    quick = ctx.quick
    for idx, (kind, hist, pol, init_tags) in enumerate(items):
        if not ctx.mine(idx):
            continue
        base = None
        try:
            base = lifecycle.Run(rng, kind, hist, pol, None, init_tags=init_tags).execute()
        except ScenarioDead:
            pass
        if base is None:
            continue
        report(res, base, kind, hist, pol, None)
        if stuck(res):
            res.count("stopped-early-after-repeated-nontermination")
            return res
        n_ops = base.io_ops_total
        base.finish()
        res.count("fault-free-runs")
        res.count("io-ops-enumerable", n_ops)
        if n_ops == 0:
            continue
        if quick:
            if n_ops <= 20:
                ks = list(range(1, n_ops + 1))
            else:
                ks = sorted({1, 2, 3, n_ops, n_ops - 1, max(1, n_ops // 2)} | {rng.randint(1, n_ops) for _ in range(6)})
                # ... and inside EVERY operation of the history: its first and its last socket operation (a fault that hits the read of
                # [open, read, close] must not depend on where the random positions fall)
                bounds_ = [0] + list(getattr(base, "op_bounds", []))
                for lo_, hi_ in zip(bounds_, bounds_[1:]):
                    if hi_ > lo_:
                        ks += [lo_ + 1, hi_]
                ks = sorted(set(ks))
            ks = [k for k in ks if 1 <= k <= n_ops]
            must_ = set(ks) if n_ops > 20 and len(hist) <= 3 else set()
        else:
            must_ = set()
            ks = list(range(1, n_ops + 1)) if n_ops <= 60 else sorted({1, 2, 3, n_ops - 1, n_ops} | {rng.randint(1, n_ops) for _ in range(40)})
        for k in ks:
            for fk in lifecycle.FAULT_KINDS:
                if quick and kind != "cip" and rng.random() < 0.5 and not (k in must_ and fk in ("send-raise", "recv-raise")):
                    continue
                try:
                    r = lifecycle.Run(rng, kind, hist, pol, (k, fk), init_tags=init_tags).execute()
                except ScenarioDead:
                    continue
                report(res, r, kind, hist, pol, (k, fk))
                r.finish()
                if stuck(res):
                    res.count("stopped-early-after-repeated-nontermination")
                    return res
                res.count(f"fault-runs:{fk}")
        if idx < 3 * ctx.nshards:
            res.sample({"driver": kind, "history": list(hist), "policy": pol, "io_ops": n_ops, "events": base.events[:6]})
    return res


def stuck(res):
    """calls that do not terminate burn their whole step budget each: once that has been witnessed a few times the verdict is in"""
    return sum(n for k, n in res.viol_counts.items() if k.startswith("call-does-not-terminate")) >= 5


def report(res, r, kind, hist, pol, fault):
    res.ev()
    res.seen(kind, hist, pol, fault)
    wit = {"driver": kind, "history": list(hist), "policy": pol, "fault": fault, "events": r.events}
    for key, what in r.findings:
        res.violation(key, what, wit)
    for pid, key, what, w in r.b.log.violations:
        if pid == "C10":
            res.violation(f"target:{key}", f"{what} [history {list(hist)}, policy {pol}, fault {fault}, driver {kind}]", dict(wit, monitor=w))
    r.b.log.violations.clear()
