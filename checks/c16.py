"""C16 - device identities decode faithfully (ListIdentity, Identity object through UCMM / Unconnected Send,
broadcast discovery, encode/decode round trip)."""
from vlib.bench import ScenarioDead
from vlib import common, devices
from vlib import reftarget as rt
from vlib.bench import Bench

LEVEL = "exploration"
SHARDS = {"quick": 4, "thorough": 16}
TIMEOUT = {"quick": 900, "thorough": 2400}
MIN_EVALUATIONS = {"quick": 6000, "thorough": 6000}  # fewer oracle evaluations than this means the workload collapsed: inconclusive
RULE = ("identities drawn over the whole domain (vendor / product-type ids 0..65535 incl. every table id and unknown ids, product codes, "
        "revisions 0..255, status bytes, serial boundaries incl. leading-zero nibbles, Latin-1 names of length 0..255 incl. edge whitespace, "
        "any IPv4, state 0..255) are configured in the reference target and read back through CIPDriver.list_identity, _list_identity, "
        "get_module_info(slot), LogixDriver.get_plc_info (UCMM for Micro800, Unconnected Send otherwise) and discover/_broadcast_discover "
        "with 0..5 UDP replies (every third scenario: ListIdentity replies carry a second, unknown item after the identity item); get_plc_info() again after "
        "get_module_info(neighbour slot) in a rack whose modules differ; in 60 % of the rack scenarios a communication module answers ListIdentity and the controller sits behind it "
        "(info / get_plc_info describe the controller); identity dicts with shuffled key order; LogixDriver.open() + get_plc_info + _list_identity for every value 0..255 of the first status byte "
        "(a third with the addresses 0.0.0.0 / 255.255.255.255 / 0.0.0.1); a quarter of the devices append the optional Identity attributes 8-10 after the name; discover(broadcast_address=...) positional and by keyword (every datagram goes "
        "to that address; in half of these scenarios only the unbound attempt is answered); every returned field is compared with the configured identity; ModuleIdentityObject.decode(encode(d)) == d. "
        "distinct = (entry point, vendor known?, type known?, serial nibble class, name length class) evaluated")
ASSUMPTIONS = [
    "vendor / product-type texts: the ODVA lists as shipped at the pinned commit (vlib/data/identity_tables.json, 1457 vendors / 41 device types); ids added later take the library's text; 'UNKNOWN' otherwise",
    "serial is rendered as 8 lower-case hex digits; status as the 2 raw bytes",
]
ANCHORS = [
    ("pycomm3/custom_types.py", "ModuleIdentityObject._decode"), ("pycomm3/custom_types.py", "ListIdentityObject._decode"),
    ("pycomm3/custom_types.py", "IPAddress._decode"), ("pycomm3/packets/ethernetip.py", "ListIdentityResponsePacket._parse_reply"),
    ("pycomm3/cip_driver.py", "CIPDriver.list_identity"), ("pycomm3/cip_driver.py", "CIPDriver._list_identity"),
    ("pycomm3/cip_driver.py", "CIPDriver.get_module_info"), ("pycomm3/cip_driver.py", "CIPDriver._broadcast_discover"),
    ("pycomm3/cip_driver.py", "CIPDriver.discover"), ("pycomm3/logix_driver.py", "LogixDriver.get_plc_info"),
]


def run(ctx):
    res = common.Result("C16")
    import pycomm3 as p
    rng = ctx.rng()
    quick = ctx.quick
    VENDORS, PTYPES = p.VENDORS, p.PRODUCT_TYPES
    vend_ids = sorted(k for k in VENDORS if isinstance(k, int))
    type_ids = sorted(k for k in PTYPES if isinstance(k, int))

    import json
    import os
    gold = json.load(open(os.path.join(common.VERIF_DIR, "vlib", "data", "identity_tables.json")))
    gold_v = {int(k): v for k, v in gold["vendors"].items()}
    gold_t = {int(k): v for k, v in gold["product_types"].items()}

    def expected(idn, list_identity=False):
        d = {
            # ids of the ODVA lists as shipped at the pinned commit keep their names; ids added later take the library's text
            "vendor": gold_v.get(idn.vendor, VENDORS[idn.vendor] if idn.vendor in vend_ids else "UNKNOWN"),
            "product_type": gold_t.get(idn.product_type, PTYPES[idn.product_type] if idn.product_type in type_ids else "UNKNOWN"),
            "product_code": idn.product_code, "revision": {"major": idn.major, "minor": idn.minor},
            "status": idn.status, "serial": f"{idn.serial:08x}", "product_name": idn.name,
        }
        if list_identity:
            d.update({"encap_protocol_version": idn.encap_version, "ip_address": idn.ip, "state": idn.state})
        return d

    def compare(entry, got, idn, list_identity=False, extra_ok=()):
        res.ev()
        s = f"{idn.serial:08x}"
        res.seen(entry, idn.vendor in vend_ids, idn.product_type in type_ids, s.startswith("0"), len(s.lstrip("0")), min(len(idn.name), 40),
                 idn.name[:1].isspace() or idn.name[-1:].isspace())
        want = expected(idn, list_identity)
        if not isinstance(got, dict):
            res.violation(f"{entry}:no-identity", f"{entry} -> {got!r:.200}; device is {want!r:.300}", {"identity": want})
            return
        bad = {k: (got.get(k, "<missing>"), v) for k, v in want.items() if got.get(k, "<missing>") != v or type(got.get(k)) is not type(v)}
        extra = set(got) - set(want) - set(extra_ok)
        if bad:
            fld = sorted(bad)[0]
            res.violation(f"{entry}:{fld}", f"{entry}: field(s) differ (got, device): {bad!r:.400}", {"identity": want, "got": got})
        elif extra:
            res.dont_care("extra-keys")

    n = 1200 if quick else 20000
    for sc in range(n):  # WRAPPED
        try:
            if not ctx.mine(sc):
                continue
            b = Bench(rng)
            # cycle through every table id so all known ids are exercised
            front_id = devices.random_identity(rng, vend_ids, type_ids)
            if sc < len(vend_ids) * 2:
                front_id.vendor = vend_ids[(sc // 2) % len(vend_ids)]
            if sc < len(type_ids) * 3:
                front_id.product_type = type_ids[(sc // 3) % len(type_ids)]
            front = rt.Device(front_id, rng, b.log)
            routes = {}
            mods = {}
            for slot in rng.sample(range(0, 17), 5):
                mods[slot] = rt.Device(devices.random_identity(rng, vend_ids, type_ids), rng, b.log)
                routes[((1, slot),)] = mods[slot]
            t = rt.RefTarget(rng, front=front, routes=routes, log=b.log)
            # every third device appends a second common-packet item to its ListIdentity reply (e.g. the CIP Security item 0x86): the
            # identity is still the one in the identity item
            extra_item = b""
            if sc % 3 == 1:
                xd = bytes(rng.randrange(256) for _ in range(rng.choice([0, 2, 6, 10])))
                extra_item = rng.choice([0x0086, 0x0087, 0x8002]).to_bytes(2, "little") + len(xd).to_bytes(2, "little") + xd
            t.policy.list_identity_extra = extra_item
            res.seen("list-identity-items", 2 if extra_item else 1)
            b.set_target(t)
            # --- CIPDriver.list_identity(path) (classmethod: open, ListIdentity, close)
            st, got = b.call("list_identity", p.CIPDriver.list_identity, b.host)
            compare("list_identity", got if st == "ok" else got, front_id, True)
            if t.sessions or t.connections:
                res.violation("list_identity:leaks-session", f"CIPDriver.list_identity left {len(t.sessions)} session(s) on the target", None)
            drv = p.CIPDriver(f"{b.host}/bp/{sorted(mods)[0]}")
            st, out = b.call("open", drv.open)
            if st == "ok":
                st, got = b.call("_list_identity", drv._list_identity)
                compare("_list_identity", got, front_id, True)
                for slot, m in sorted(mods.items()):
                    st, got = b.call("get_module_info", drv.get_module_info, slot)
                    compare("get_module_info", got, m.identity)
                # modules are replaced / change state while the driver stays open: a later query must show the new identity
                for slot, m in sorted(mods.items())[:3]:
                    m.identity = devices.random_identity(rng, vend_ids, type_ids)
                    st, got = b.call("get_module_info", drv.get_module_info, slot)
                    compare("get_module_info(again)", got, m.identity)
                b.call("close", drv.close)
            else:
                res.violation("open-failed", f"open() -> {out!r:.200}", None)
            # --- discovery over UDP with 0..5 replies
            k = rng.choice([0, 1, 1, 2, 3, 5])
            idents = [devices.random_identity(rng, vend_ids, type_ids) for _ in range(k)]

            def udp(data, addr, idents=idents):
                from vlib import refencap as enc
                try:
                    h = enc.parse_header(data)
                except enc.EncapError:
                    return []
                if h["command"] != 0x63 or addr[1] != 44818:
                    return []
                return [enc.build_frame(0x63, 0, (2 if extra_item else 1).to_bytes(2, "little") + i.list_identity_item() + extra_item, context=h["context"]) for i in idents]
            b.net.udp_handler = udp
            req = p.packets.ListIdentityRequestPacket()
            msg = req.build_request(None, 0, b"\x00" * 8, 0)
            st, devs = b.call("_broadcast_discover", p.CIPDriver._broadcast_discover, None, msg, req)
            res.ev()
            if st != "ok" or not isinstance(devs, list) or len(devs) != k:
                res.violation("discover:count", f"_broadcast_discover with {k} replying devices returned {devs!r:.200}", None)
            else:
                for got, idn in zip(devs, idents):
                    compare("_broadcast_discover", got, idn, True)
            if sc % 5 in (1, 2) and k:
                # discover(broadcast_address=...): a directed broadcast to another subnet.  Every datagram of the call goes to that
                # address (the devices never see one sent elsewhere); in every other such scenario the host's own interface addresses
                # do not reach that subnet, so only the final, unbound attempt is answered
                ba = rng.choice(["10.1.2.255", "192.168.77.255", "172.16.255.255"])
                unbound_only = sc % 5 == 2

                def udp2(data, addr, inner=udp, ba=ba, unbound_only=unbound_only):
                    if addr[0] != ba or (unbound_only and getattr(b.net, "last_udp_bound", None) is not None):
                        return []
                    return inner(data, addr)
                b.net.udp_handler = udp2
                b.net.udp_destinations = []
                st, devs = b.call("discover", p.CIPDriver.discover, ba) if rng.random() < 0.5 else b.call("discover", p.CIPDriver.discover, broadcast_address=ba)
                res.ev()
                res.seen("discover-directed", unbound_only, k)
                dests = [d_ for d_ in getattr(b.net, "udp_destinations", [])]
                if st != "ok" or not isinstance(devs, list) or len(devs) != k or any(d_[0] != ba for d_ in dests):
                    res.violation("discover:broadcast_address", f"discover(broadcast_address={ba!r}) with {k} devices on that subnet ({'answering the unbound attempt only' if unbound_only else 'answering every attempt'}) "
                                                                f"returned {len(devs) if isinstance(devs, list) else devs!r} device(s); datagrams went to {sorted({d_[0] for d_ in dests})}", None)
                b.net.udp_handler = udp
            if sc % 5 == 0:
                st, devs = b.call("discover", p.CIPDriver.discover)
                res.ev()
                if st != "ok" or not isinstance(devs, list) or len(devs) != k:
                    res.violation("discover:count", f"discover() with {k} replying devices returned {devs!r:.200}", None)
                else:
                    for got, idn in zip(devs, idents):
                        compare("discover", got, idn, True)
            # --- LogixDriver.get_plc_info: UCMM for Micro800, Unconnected Send otherwise
            micro = rng.random() < 0.4
            cid = devices.random_identity(rng, vend_ids, type_ids, micro800=micro)
            ctl = devices.ControllerDevice(cid, rng, b.log)
            nb_slot = rng.choice([1, 3, 9])
            neighbour = rt.Device(devices.random_identity(rng, vend_ids, type_ids), rng, b.log)
            # in a rack the Ethernet port belongs to a communication module: it answers ListIdentity, the controller sits behind the
            # backplane route - `info` / get_plc_info() describe the controller, not whoever answered ListIdentity
            front2 = ctl
            if not micro and rng.random() < 0.6:
                front2 = rt.Device(devices.random_identity(rng, vend_ids, type_ids), rng, b.log)
            res.seen("logix-front", "bridge" if front2 is not ctl else "controller", micro)
            t2 = rt.RefTarget(rng, front=front2, routes={((1, 0),): ctl, ((1, nb_slot),): neighbour}, log=b.log)
            b.set_target(t2)
            ld = p.LogixDriver(b.host, init_tags=False)
            st, out = b.call("open", ld.open)
            if st == "ok" and out:
                info = dict(ld.info)
                compare("get_plc_info(open)", info, cid, extra_ok=("keyswitch", "name", "programs", "tasks", "modules"))
                st, got = b.call("get_plc_info", ld.get_plc_info)
                compare("get_plc_info", got, cid, extra_ok=("keyswitch",))
                if not micro:
                    # asking for the module in another slot must not change whose identity get_plc_info() reports afterwards
                    st, got = b.call("get_module_info", ld.get_module_info, nb_slot)
                    compare("get_module_info(neighbour)", got, neighbour.identity)
                    st, got = b.call("get_plc_info", ld.get_plc_info)
                    compare("get_plc_info(after get_module_info)", got, cid, extra_ok=("keyswitch",))
                j = [e for e in ctl.journal if e["segs"][:1] == [("logical", "class", 1)]]
                want_tr = "ucmm" if micro else "unconnected_send"
                if not j or j[-1]["transport"] != want_tr:
                    res.violation("get_plc_info:transport", f"get_plc_info used {j[-1]['transport'] if j else None}, expected {want_tr} (micro800={micro})", None)
                b.call("close", ld.close)
            else:
                res.ev()
                res.violation("logix-open-failed", f"LogixDriver.open() -> {out!r:.200} with identity {cid.name!r} (micro800={micro})", {"identity": expected(cid)})
            if sc < 3:
                res.sample({"configured": expected(front_id, True), "list_identity": repr(got)[:300]})
            b.close()
        except ScenarioDead:
            continue

    # ---- every value of the first status byte (the one the library derives `keyswitch` from) through LogixDriver.open(): whatever the
    # controller reports there - run, program, faulted, values no table lists - the identity comes back as encoded and open() works
    try:
        b = Bench(rng)
        for s0 in range(256):
            if not ctx.mine(s0):
                continue
            cid = devices.random_identity(rng, vend_ids, type_ids)
            cid.status = bytes([s0, rng.choice([0x10, 0x11, 0x20, 0x30, 0x31, 0x00, 0xFF, rng.randrange(256)])])
            if rng.random() < 0.3:
                cid.ip = rng.choice(["0.0.0.0", "255.255.255.255", "0.0.0.1"])
            ctl = devices.ControllerDevice(cid, rng, b.log)
            b.set_target(rt.RefTarget(rng, front=ctl, routes={((1, 0),): ctl}, log=b.log))
            ld = p.LogixDriver(b.host, init_tags=False)
            st, out = b.call("open", ld.open)
            res.ev()
            res.seen("status-byte-sweep", s0)
            if st != "ok" or not out:
                res.violation("logix-open-failed", f"LogixDriver.open() -> {out!r:.200} with identity status bytes {cid.status.hex()}", {"identity": expected(cid)})
                continue
            st, got = b.call("get_plc_info", ld.get_plc_info)
            compare("get_plc_info(status sweep)", got, cid, extra_ok=("keyswitch",))
            st, got = b.call("_list_identity", ld._list_identity)
            compare("_list_identity(status sweep)", got, cid, True)
            b.call("close", ld.close)
        b.close()
    except ScenarioDead:
        pass

    # ---- every vendor id and every product-type id 0..65535 through both identity decoders (no network needed) ---------------
    base = rt.Identity()
    for vid in range(65536):
        if not ctx.mine(vid):
            continue
        for field in ("vendor", "product_type"):
            idn = rt.Identity(vendor=vid if field == "vendor" else 1, product_type=vid if field == "product_type" else 0x0E, serial=vid * 65537 & 0xFFFFFFFF, name=base.name)
            want = expected(idn)[field]
            res.ev()
            try:
                got1 = p.ModuleIdentityObject.decode(idn.object_bytes())[field]
                got2 = p.custom_types.ListIdentityObject.decode(idn.list_identity_item())[field]
            except Exception as e:  # noqa
                got1 = got2 = e
            if got1 != want or got2 != want:
                res.violation(f"id-table:{field}", f"{field} id {vid} decodes to {got1!r} (Identity object) / {got2!r} (ListIdentity); expected {want!r}", {"field": field, "id": vid})
    res.seen("id-sweep", "all 65536 vendor and product-type ids")
    # ---- encode / decode identity -----------------------------------------------------------------------------
    vnames = sorted(k for k in VENDORS if isinstance(k, str))
    tnames = sorted(k for k in PTYPES if isinstance(k, str))
    for i in range(4000 if quick else 60000):
        if not ctx.mine(i):
            continue
        idn = devices.random_identity(rng, vend_ids, type_ids)
        d = {"vendor": rng.choice(vnames), "product_type": rng.choice(tnames), "product_code": idn.product_code,
             "revision": {"major": idn.major, "minor": idn.minor}, "status": idn.status, "serial": f"{idn.serial:08x}", "product_name": idn.name}
        if rng.random() < 0.5:
            # an identity is a mapping: the order in which the caller happened to build it says nothing (hand-made, sorted, merged dicts)
            ks = list(d)
            rng.shuffle(ks)
            d = {k: d[k] for k in ks}
            if rng.random() < 0.5:
                d["revision"] = {"minor": idn.minor, "major": idn.major}
        res.ev()
        res.seen("roundtrip", d["serial"][:1], min(len(idn.name), 40))
        try:
            enc_ = p.ModuleIdentityObject.encode(d)
            back = p.ModuleIdentityObject.decode(enc_)
        except Exception as e:  # noqa
            res.violation("roundtrip:raises", f"ModuleIdentityObject encode/decode of {d!r:.300} raised {e!r:.160}", d)
            continue
        # the byte layout must be the Identity object's (vendor, type, code, rev, status, serial, name)
        want_bytes = (VENDORS[d["vendor"]].to_bytes(2, "little") + PTYPES[d["product_type"]].to_bytes(2, "little") + idn.product_code.to_bytes(2, "little")
                      + bytes([idn.major, idn.minor]) + idn.status + idn.serial.to_bytes(4, "little") + bytes([len(idn.name)]) + idn.name.encode("iso-8859-1"))
        if bytes(enc_) != want_bytes:
            res.violation("encode-layout", f"ModuleIdentityObject.encode({d!r:.200}) = {bytes(enc_).hex()[:120]}, Identity object layout is {want_bytes.hex()[:120]}", d)
        same = {k: v for k, v in back.items() if k not in ("vendor", "product_type")} == {k: v for k, v in d.items() if k not in ("vendor", "product_type")}
        names_ok = VENDORS.get(back.get("vendor")) == VENDORS[d["vendor"]] and PTYPES.get(back.get("product_type")) == PTYPES[d["product_type"]]
        if not same or not names_ok:
            res.violation("roundtrip", f"decode(encode({d!r:.300})) = {back!r:.300}", d)
    return res
