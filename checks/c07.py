"""C07 - encodings are the CIP wire format: differential against the independent reference codec."""
import struct
from io import BytesIO

from vlib import common
from vlib import refcodec as rc
from vlib import typegrammar as tg

LEVEL = "exploration"
SHARDS = {"quick": 4, "thorough": 16}
TIMEOUT = {"quick": 600, "thorough": 1800}
MIN_EVALUATIONS = {"quick": 300000, "thorough": 300000}  # fewer oracle evaluations than this means the workload collapsed: inconclusive
RULE = ("differential of T.encode / T.decode against vlib/refcodec.py: exhaustive over all 256 / 65536 byte patterns and "
        "values of every exported 1- and 2-byte type; boundaries, walking bits, special float bit patterns and seeded random "
        "values for 4/8-byte types; strings over every prefix/character width at lengths 0..300 plus prefix limits; "
        "FixedSizeString capacities 1..500 with shorter/equal/longer values; randomly generated Array/Struct/StructTag "
        "layouts (depth <= 3); type-code table widths. distinct = (type label, direction, value bucket) evaluated, "
        "a case is non-trivial when the reference produced/consumed >= 1 byte")
ASSUMPTIONS = [
    "reference codec written from CIP Vol 1 App. C and Logix 5000 Data Access (1756-PM020); self-tested on the repository's documentation vectors",
    "ENGUNIT is judged as the 16-bit bit-string the library documents; DATE_AND_TIME.size is not judged",
    "NaN compares equal to NaN; floats compared by bit pattern at the type's width",
]
ANCHORS = [
    ("pycomm3/cip/data_types.py", "ElementaryDataType._encode"), ("pycomm3/cip/data_types.py", "ElementaryDataType._decode"),
    ("pycomm3/cip/data_types.py", "BOOL._encode"), ("pycomm3/cip/data_types.py", "StringDataType._encode"),
    ("pycomm3/cip/data_types.py", "StringDataType._decode"), ("pycomm3/cip/data_types.py", "BitArrayType._encode"),
    ("pycomm3/cip/data_types.py", "BitArrayType._decode"), ("pycomm3/cip/data_types.py", "DataTypes.get_type"),
    ("pycomm3/custom_types.py", "StructTag._encode"), ("pycomm3/custom_types.py", "StructTag._decode"),
    ("pycomm3/custom_types.py", "FixedSizeString._encode"), ("pycomm3/custom_types.py", "FixedSizeString._decode"),
    ("pycomm3/cip/data_types.py", "Array.encode"), ("pycomm3/cip/data_types.py", "Array.decode"),
]


def lib_encode(T, v, *extra):
    try:
        return "ok", T.encode(v, *extra)
    except Exception as e:  # noqa
        return "exc", e


def lib_decode(T, data):
    """decode from a stream; returns (status, value, consumed)"""
    st = BytesIO(bytes(data))
    try:
        v = T.decode(st)
        return "ok", v, st.tell()
    except Exception as e:  # noqa
        return "exc", e, st.tell()


def shape(desc):
    k = desc[0]
    if k in ("array", "larray", "uarray"):
        return f"{k}<{shape(desc[-1])}>"
    if k == "struct":
        return "struct<" + ",".join(shape(d) for n, d in desc[1][:4]) + ">"
    if k == "udt":
        return f"udt<{len(desc[2])}m{len(desc[3])}b>"
    if k == "int":
        return f"{'i' if desc[2] else 'u'}{8 * desc[1]}"
    return k + "".join(str(x) for x in desc[1:] if isinstance(x, int))


def kshape(case):
    """coarse mechanism key: the leaf type's name, or the outermost constructor of a composite"""
    if case.depth == 0 and case.desc[0] not in ("struct", "udt", "fixstr", "bytes"):
        return case.label
    return case.desc[0]


def check_encode(res, case, v, bucket=None, extra=()):
    desc = case.desc
    want = rc.encode(desc, v)
    st, got = lib_encode(case.lib, v, *extra)
    res.ev()
    if len(want):
        res.seen(case.label if case.depth == 0 else shape(desc), "enc", bucket if bucket is not None else common.short_hash(want)[:3])
    if st != "ok":
        res.violation(f"encode-raises:{kshape(case)}", f"{case.label}.encode({v!r:.120}) raised {got!r:.200}; reference encodes {want.hex()[:80]}",
                      {"type": case.label, "value": v})
        return None
    if not isinstance(got, (bytes, bytearray)) or bytes(got) != want:
        res.violation(f"encode-differs:{kshape(case)}",
                      f"{case.label}.encode({v!r:.120}) = {bytes(got).hex()[:120] if isinstance(got, (bytes, bytearray)) else got!r} ; reference {want.hex()[:120]}",
                      {"type": case.label, "value": v, "lib": got, "ref": want})
        return None
    return want


def check_decode(res, case, data, bucket=None):
    """data must be decodable by the reference (otherwise the case belongs to C08)."""
    desc = case.desc
    try:
        want, used = rc.decode(desc, data)
    except rc.RefError:
        return
    except (UnicodeDecodeError, ValueError):
        return
    st, got, consumed = lib_decode(case.lib, data)
    res.ev()
    if used:
        res.seen(case.label if case.depth == 0 else shape(desc), "dec", bucket if bucket is not None else common.short_hash(bytes(data[:used]))[:3])
    if st != "ok":
        res.violation(f"decode-raises:{kshape(case)}", f"{case.label}.decode({bytes(data[:64]).hex()}..) raised {got!r:.200}; reference -> {want!r:.120}",
                      {"type": case.label, "data": bytes(data)})
        return
    if not rc.values_equal(desc, want, got):
        res.violation(f"decode-differs:{kshape(case)}", f"{case.label}.decode({bytes(data[:64]).hex()}) = {got!r:.160} ; reference {want!r:.160}",
                      {"type": case.label, "data": bytes(data), "lib": got, "ref": want})
        return
    if consumed != used:
        res.violation(f"decode-consumed:{kshape(case)}", f"{case.label}.decode consumed {consumed} bytes, reference {used} (buffer {len(data)})",
                      {"type": case.label, "data": bytes(data)})
    # "decodes every byte pattern to the value the reference decodes" - on every decode, whatever the caller did with an earlier
    # result: scramble the returned list / dict in place and decode the same bytes again (no shared or cached result objects)
    if isinstance(got, (list, dict)) and got:
        from checks.c06 import scramble
        scramble(got)
        st2, got2, _ = lib_decode(case.lib, data)
        res.ev()
        if st2 != "ok" or not rc.values_equal(desc, want, got2):
            res.violation(f"decode-differs-after-caller-modified-earlier-result:{kshape(case)}",
                          f"{case.label}.decode({bytes(data[:64]).hex()}) after the caller modified the previously returned list/dict = {got2!r:.140} ; reference {want!r:.140}",
                          {"type": case.label, "data": bytes(data)})


def run(ctx):
    res = common.Result("C07")
    rc.EMPTY_REST_IS_ERROR = True   # byte strings that end exactly where an n_bytes(-1) member begins are not decodable values (C08's case)
    import pycomm3 as p
    rng = ctx.rng()
    quick = ctx.quick
    elems = tg.elementary_cases(p)
    work = 0

    # ---- (a) exhaustive 1- and 2-byte types ----------------------------------------------------
    for case in elems:
        d = case.desc
        sz = rc.size_of(d)
        if sz not in (1, 2):
            continue
        work += 1
        if not ctx.mine(work):
            continue
        for n in range(256 ** sz):
            raw = n.to_bytes(sz, "little")
            check_decode(res, case, raw + b"\xa5", bucket=n >> (8 * sz - 8) if sz == 2 else n >> 4)
            v, _ = rc.decode(d, raw)
            if d[0] == "bool" and v and raw != b"\xff":
                continue  # encode direction only defined for the canonical form
            check_encode(res, case, v, bucket=n >> (8 * sz - 8) if sz == 2 else n >> 4)
        res.count("exhaustive_types")

    # ---- (b) 4/8-byte numeric types ----------------------------------------------------------
    for case in elems:
        d = case.desc
        sz = rc.size_of(d)
        if sz not in (4, 8):
            continue
        work += 1
        if not ctx.mine(work):
            continue
        pats = set()
        for i in range(8 * sz):
            pats.add(1 << i)
            pats.add((1 << (8 * sz)) - 1 - (1 << i))
            pats.add((1 << i) - 1)
        pats |= {0, (1 << (8 * sz)) - 1}
        if d[0] == "real":
            pats |= set(tg.FLOAT32_BITS if sz == 4 else tg.FLOAT64_BITS)
        nrand = 3000 if quick else 60000
        for _ in range(nrand):
            pats.add(rng.getrandbits(8 * sz))
        for n in sorted(pats):
            raw = n.to_bytes(sz, "little")
            check_decode(res, case, raw + b"\x5a\x5a", bucket=n & 0xFF)
            v, _ = rc.decode(d, raw)
            check_encode(res, case, v, bucket=n & 0xFF)
        if d[0] == "real":  # ints and python floats that are not exactly representable
            for v in [0, 1, -1, 16777217, 123.45, 1 / 3, -2.5e-40, 3.4028234e38, 2 ** 24 + 1] + [rng.uniform(-1e6, 1e6) for _ in range(200)]:
                if rc.in_domain(d, v):
                    check_encode(res, case, v, bucket="py")
        res.count("wide_types")

    # ---- (c) strings -----------------------------------------------------------------------------
    for case in elems:
        d = case.desc
        if d[0] != "str":
            continue
        work += 1
        if not ctx.mine(work):
            continue
        mx = rc.int_range(d[1], False)[1]
        lengths = list(range(0, 301 if not quick else 101)) + [254, 255, 256, 257, 511, 512, 1000, 4000, 65534, 65535, 65536, 70000]
        for n in lengths:
            if n > mx:
                continue
            for rep in range(1 if n > 300 else 2):
                s = tg.rand_str(rng, n, d[2])
                enc = check_encode(res, case, s, bucket=f"len{min(n, 300)}")
                if enc is not None:
                    check_decode(res, case, enc + b"\x00\xff", bucket=f"len{min(n, 300)}")
        if d[2] == 2:
            # bytes as a DEVICE writes them: the prefix counts 16-bit characters, and a character beyond the BMP takes two of them
            # (a surrogate pair).  Only the decode direction is judged (round 13, R09-m1): what the library's own encoder makes of such
            # a str is not a value of C06's / C07's generators.
            for n in list(range(2, 40)) + [100, 255, 256, 1000]:
                units = []
                while len(units) < n:
                    if len(units) + 2 <= n and rng.random() < 0.4:
                        cp = rng.choice([0x10000, 0x1F600, 0x10FFFF, rng.randrange(0x10000, 0x110000)]) - 0x10000
                        units += [0xD800 + (cp >> 10), 0xDC00 + (cp & 0x3FF)]
                    else:
                        units.append(rng.choice([rng.randrange(0x20, 0x7F), rng.randrange(0xA0, 0xD800), rng.randrange(0xE000, 0x10000)]))
                if not any(0xD800 <= u < 0xDC00 for u in units):
                    cp = 0x1F600 - 0x10000
                    units[:2] = [0xD800 + (cp >> 10), 0xDC00 + (cp & 0x3FF)]
                raw = n.to_bytes(d[1], "little") + b"".join(u.to_bytes(2, "little") for u in units)
                check_decode(res, case, raw + b"\x00\xff", bucket=f"pairs{min(n, 40)}")
            res.count("string2_surrogate_pair_patterns")
        res.count("string_types")

    # ---- (d) type-code table: documented code -> type of that width -------------------------
    work += 1
    if ctx.mine(work):
        for name, (code, d) in rc.SPEC_TYPES.items():
            res.ev()
            res.seen("code", name)
            cls = getattr(p, name, None)
            if cls is None or getattr(cls, "code", None) != code:
                res.violation("type-code", f"{name}.code = {getattr(cls, 'code', None)!r}, CIP says {code:#x}", None)
                continue
            try:
                t = p.DataTypes.get_type(code)
            except Exception as e:  # noqa
                t = e
            width = rc.size_of(d)
            if not isinstance(t, type):
                res.violation("type-code-table", f"DataTypes.get_type({code:#x}) -> {t!r}", None)
                continue
            if width is not None:
                sample = rc.decode(d, bytes(width))[0]
                st, got = lib_encode(t, sample)
                if st != "ok" or len(got) != width:
                    res.violation("type-code-width", f"DataTypes.get_type({code:#x}) = {t!r} encodes {sample!r} to {got!r}, expected {width} bytes", None)
                if 0xC1 <= code <= 0xCB or 0xD1 <= code <= 0xD4:
                    if getattr(t, "size", None) != width:
                        res.violation("type-size-attr", f"{t!r}.size = {getattr(t, 'size', None)!r}, expected {width}", None)
            else:
                st, got = lib_encode(t, "ab")
                want = rc.encode(d, "ab")
                if st != "ok" or bytes(got) != want:
                    res.violation("type-code-width", f"DataTypes.get_type({code:#x}) = {t!r} encodes 'ab' to {got!r}, expected {want!r}", None)
        # codes of the types with special constructors (CIP Vol 1 C-6.1)
        for name, code in (("DATE_AND_TIME", 0xCF), ("STRINGN", 0xD9), ("STRINGI", 0xDE), ("PADDED_EPATH", 0xDC), ("PACKED_EPATH", 0xDC), ("EPATH", 0xDC)):
            res.ev()
            res.seen("code", name)
            cls = getattr(p, name, None)
            if cls is None or getattr(cls, "code", None) != code:
                res.violation("type-code", f"{name}.code = {getattr(cls, 'code', None)!r}, CIP says {code:#x}", None)
        # n_bytes / IPAddress / Revision
        for k in (1, 2, 4, 6, 8, 33):
            c = tg.nbytes_case(p, k)
            for _ in range(20):
                v = tg.gen_value(c.desc, rng)
                enc = check_encode(res, c, v, bucket=k)
                if enc is not None:
                    check_decode(res, c, enc + b"zz", bucket=k)
        # n_bytes(-1): "all remaining bytes" - the encoding is the value itself, decode takes everything that is left
        c = tg.nbytes_case(p, -1)
        for n in list(range(1, 20)) + [255, 256, 1000]:  # the empty value is outside the judged domain (C08: BufferEmptyError)
            v = bytes(rng.randrange(256) for _ in range(n))
            enc = check_encode(res, c, v, bucket=f"rest{min(n, 20)}")
            if enc is not None:
                check_decode(res, c, enc, bucket=f"rest{min(n, 20)}")
        c = tg.ipaddress_case(p)
        for _ in range(300):
            v = tg.gen_value(c.desc, rng)
            enc = check_encode(res, c, v, bucket=v.split(".")[0])
            if enc is not None:
                check_decode(res, c, enc + b"\x01", bucket=v.split(".")[0])
        c = tg.revision_case(p)
        for _ in range(100):
            v = tg.gen_value(c.desc, rng)
            enc = check_encode(res, c, v)
            check_encode(res, c, tg.struct_as_dict(c.desc, v, rng))
            if enc is not None:
                check_decode(res, c, enc + b"\x01")

    # ---- (e) fixed-capacity Logix strings -------------------------------------------------------
    caps = list(range(1, 501)) if not quick else list(range(1, 90)) + [99, 100, 127, 128, 255, 256, 257, 480, 499, 500]
    for cap in caps:
        work += 1
        if not ctx.mine(work):
            continue
        for lenname in ("UDINT", "DINT") if cap % 7 else ("UDINT", "DINT", "UINT", "INT"):
            c = tg.fixstr_case(p, cap, lenname)
            for n in sorted({0, 1, cap // 2, cap - 1, cap, cap + 1, cap + 7, 2 * cap}):
                if n < 0:
                    continue
                s = tg.rand_str(rng, n, 1)
                enc = check_encode(res, c, s, bucket=("lt" if n < cap else "eq" if n == cap else "gt", cap))
                if enc is not None:
                    check_decode(res, c, enc + b"\x7f", bucket=("lt" if n < cap else "eq" if n == cap else "gt", cap))
            # arbitrary memory image (LEN shorter than capacity, garbage after LEN)
            img = rc.encode(c.desc[2], rng.randint(0, cap)) + bytes(rng.randrange(256) for _ in range(cap))
            check_decode(res, c, img + b"!", bucket=("img", cap))
        res.count("fixstr_caps")

    # ---- (e2) Logix string structures with pad bytes after DATA (capacity not a multiple of 4), incl. LEN > capacity images --------------
    for cap in [1, 2, 3, 5, 6, 7, 20, 82, 83, 481] if quick else list(range(1, 130)) + [480, 481, 482, 483]:
        work += 1
        if not ctx.mine(work):
            continue
        pad = (-(4 + cap)) % 4
        try:
            lib = p.FixedSizeString(cap, p.UDINT, pad)
        except TypeError:
            res.dont_care("FixedSizeString-without-padding-parameter")
            continue
        c = tg.TypeCase(f"FixedSizeString({cap},UDINT,pad={pad})", lib, ("lstr", 4 + cap + pad, cap))
        for n in sorted({0, 1, cap - 1, cap, cap + 1, cap + pad, cap + 9}):
            if n < 0:
                continue
            sv = tg.rand_str(rng, n, 1)
            enc = check_encode(res, c, sv, bucket=("lt" if n < cap else "eq" if n == cap else "gt", cap))
            if enc is not None:
                check_decode(res, c, enc + b"\x7f", bucket=("rt", cap))
        for ln in (0, 1, cap, cap + 1, cap + pad, cap + 3, 4 * cap + 40, 0x7FFFFFFF):
            img = ln.to_bytes(4, "little") + bytes(rng.randrange(1, 256) for _ in range(cap + pad))
            check_decode(res, c, img + b"!", bucket=("img", cap, min(ln, cap + 4)))
        res.count("padded_fixstr_caps")

    # ---- (e3) the string classes the driver itself builds from uploaded LEN/DATA templates ----------------------------------------------
    # (what users actually encode / decode Logix strings with): layout LEN(4) | DATA[capacity] | pad to a multiple of 4
    if ctx.shard == 0:
        try:
            from vlib import refproject as rpj
            from vlib.logixbench import LogixScenario
            caps3 = [1, 2, 3, 4, 5, 7, 8, 12, 16, 20, 40, 81, 82, 83, 84, 100] if quick else list(range(1, 131)) + [200, 255, 256, 480, 481, 482, 483, 484]
            pb = rpj.ProjectBuilder(rng, fw=32)
            for cap in caps3:
                pb.tag(f"s{cap}", pb.string_type(f"STR_{cap}", cap))
            sc = LogixScenario(rng, config=("fw32", 32, False, True), project=pb.done())
            if not sc.ok():
                res.ev()
                res.violation("open-failed", f"LogixDriver.open() against a project of {len(caps3)} string types -> {sc.opened!r:.200}", None)
            else:
                for cap in caps3:
                    info = sc.drv.tags.get(f"s{cap}") or {}
                    lib = info.get("type_class")
                    pad = (-(4 + cap)) % 4
                    res.ev()
                    if lib is None:
                        res.violation("uploaded-string-class-missing", f"tag s{cap} (string type of capacity {cap}) was uploaded without a type class: {info!r:.160}", None)
                        continue
                    c = tg.TypeCase(f"uploaded string class, capacity {cap}", lib, ("lstr", 4 + cap + pad, cap))
                    for n in sorted({0, 1, cap - 1, cap, cap + 1, cap + 9}):
                        if n < 0:
                            continue
                        sv = tg.rand_str(rng, n, 1)
                        enc = check_encode(res, c, sv, bucket=("upl", "lt" if n < cap else "eq" if n == cap else "gt", cap))
                        if enc is not None:
                            check_decode(res, c, enc + b"\x7f", bucket=("upl-rt", cap))
                    for ln in (0, 1, cap, cap + 1, cap + 3):
                        img = ln.to_bytes(4, "little") + bytes(rng.randrange(1, 256) for _ in range(cap + pad))
                        check_decode(res, c, img + b"!", bucket=("upl-img", cap, min(ln, cap + 4)))
                    res.count("uploaded_string_classes")
            sc.close()
        except Exception as e:  # noqa  (harness trouble with the scenario: never a verdict)
            from vlib.bench import ScenarioDead
            if not isinstance(e, ScenarioDead):
                raise

    # ---- (f) generated composite layouts ---------------------------------------------------------
    ntypes = 250 if quick else 2500
    for i in range(ntypes):
        c = tg.gen_type(p, rng, rng.choice([1, 2, 2, 3]))
        if c.depth == 0 and c.desc[0] not in ("struct", "udt", "array", "larray", "uarray"):
            continue
        res.count("composite_types")
        for rep in range(6):
            v = tg.gen_value(c.desc, rng)
            if not rc.in_domain(c.desc, v):
                continue
            enc = check_encode(res, c, v)
            if c.desc[0] == "struct":
                dv = tg.struct_as_dict(c.desc, v, rng)
                if dv is not None:
                    check_encode(res, c, dv)
            if enc is None:
                continue
            if c.kind == "larray":
                pre = rc.encode(c.desc[1], len(v) // (8 * c.desc[2][1]) if c.desc[2][0] == "bits" else len(v))
                check_decode(res, c, pre + enc + b"\xee\xee")
            elif tg.consumes_rest(c.desc):
                check_decode(res, c, enc)
            else:
                check_decode(res, c, enc + b"\xee\xee\xee")
        if c.desc[0] == "udt":  # arbitrary memory image of the structure (padding / hidden bytes non-zero)
            img = bytes(rng.randrange(256) for _ in range(c.desc[1]))
            check_decode(res, c, img + b"\x11")
        if i < 3:
            res.sample({"type": c.label, "value": tg.gen_value(c.desc, rng)})
    res.sample({"type": "INT", "exhaustive": "all 65536 byte patterns decode + all values encode"})
    return res
