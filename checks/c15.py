"""C15 - connection-path strings parse to the documented route (direct part + driver constructors).
The end-to-end part (Forward Open / Unconnected Send routes seen by the reference target) lives in C10/C14
scenarios, which construct their drivers from generated spellings."""
from vlib import common
from vlib import refpath

LEVEL = "exploration"
SHARDS = {"quick": 4, "thorough": 16}
TIMEOUT = {"quick": 600, "thorough": 1800}
ALPHABET = "0123456789abcdefghijklmnopqrstuvwxyz./\\,:-"
MIN_EVALUATIONS = {"quick": 150000, "thorough": 150000}  # fewer oracle evaluations than this means the workload collapsed: inconclusive
RULE = ("routes generated from the documented grammar (hosts: IPv4 / names; optional :port 1..65534; 0-4 hops; ports by every alias "
        "or number 1..14; links 0..255 or dotted quads; every separator mix; auto-slot shortcuts for Logix/SLC) - for each route 8 "
        "spellings are generated together and each must yield the reference host, port and route bytes; every single-character "
        "delete/insert/replace over the alphabet [0-9a-z./\\\\,:-] of sampled spellings is classified by the reference recogniser: "
        "still in grammar -> compare, in a listed rejection class -> must raise RequestError (parse) or DataError (encode), else "
        "don't-care; driver constructors (CIPDriver/LogixDriver/SLCDriver) are checked for the shortcut rules, also after a "
        "Micro800-style route pop on another driver instance; end to end: the target listens on port 44818 / 2222 / 10001 / 65534 and is reached through cls.list_identity(path) and cls(path).open(); "
        "malformed route strings handed to generic_message(route_path=...) of all three "
        "driver classes must raise / fail, and the driver's own route is byte-identical before and after get_module_info(other slot). distinct = (hop count, port spelling, link kind, separator set | "
        "edit class, rejection reason) evaluated")
ASSUMPTIONS = [
    "grammar and rejection classes as listed in the property statement; numeric ports outside 1..14, upper-case aliases, leading zeros, "
    "empty or non-hostname hosts, IPv6 are don't-cares",
    "route bytes = PADDED_EPATH.encode(route, length=True), compared with vlib/refepath builders",
]
ANCHORS = [
    ("pycomm3/cip_driver.py", "parse_connection_path"), ("pycomm3/cip_driver.py", "parse_cip_route"),
    ("pycomm3/cip/data_types.py", "PortSegment._encode"), ("pycomm3/cip_driver.py", "CIPDriver.__init__"),
]


def run(ctx):
    res = common.Result("C15")
    import pycomm3 as p
    from pycomm3.cip_driver import parse_connection_path
    rng = ctx.rng()
    quick = ctx.quick
    RequestError, DataError = p.RequestError, p.DataError

    def lib_parse(s, auto_slot):
        """-> ('ok', host, port, route_bytes) | ('reject', exc) | ('foreign', exc)"""
        try:
            host, port, route = parse_connection_path(s, auto_slot)
        except RequestError as e:
            return ("reject", e)
        except Exception as e:  # noqa
            return ("foreign", e)
        try:
            rb = p.PADDED_EPATH.encode(route, length=True)
        except DataError as e:
            return ("reject", e)
        except Exception as e:  # noqa
            return ("foreign", e)
        return ("ok", host, port, rb)

    def cfg(driver):
        if not isinstance(getattr(driver, "_cfg", None), dict) or "cip_path" not in driver._cfg:
            return None   # the driver keeps its route elsewhere: this white-box part cannot observe it
        try:
            return ("ok", driver._cfg["ip address"], driver._cfg["port"], bytes(p.PADDED_EPATH.encode(driver._cfg["cip_path"], length=True)))
        except Exception as e:  # noqa
            return ("exc", e)

    def construct(cls, s):
        try:
            return cls(s)
        except RequestError as e:
            return e
        except Exception as e:  # noqa
            return e

    def judge_ctor(s, auto_slot, ref, origin):
        """the same string handed to a driver constructor: the constructor is the entry point users have"""
        cls = p.CIPDriver if not auto_slot else rng.choice([p.LogixDriver, p.SLCDriver])
        d = construct(cls, s)
        res.ev()
        res.seen("ctor-" + origin, cls.__name__, ref[0])
        if ref[0] == "ok":
            want = ("ok", ref[1], ref[2] or 44818, refpath.route_bytes(ref[3]))
            got = cfg(d) if not isinstance(d, Exception) else ("exc", d)
            if got is None:
                res.dont_care("driver-route-not-observable")
            elif got != want:
                res.violation(f"ctor-route:{cls.__name__}", f"{cls.__name__}({s!r}) -> {got!r:.200}, expected {want!r:.200}", {"path": s})
        elif not isinstance(d, RequestError):
            ok_reject = False
            if not isinstance(d, Exception):
                c_ = cfg(d)
                if c_ is None:
                    res.dont_care("driver-route-not-observable")
                    return
                ok_reject = c_[0] == "exc" and isinstance(c_[1], DataError)
            if not ok_reject:
                res.violation(f"ctor-accepts-malformed:{cls.__name__}", f"{cls.__name__}({s!r}) -> {d!r:.160} although the string is outside the grammar ({ref[1]})", {"path": s})

    def judge(s, auto_slot, origin):
        ref = refpath.classify(s, auto_slot)
        if ref[0] == "dontcare":
            res.dont_care(ref[1])
            return
        if origin in ("edit", "boundary") and rng.random() < (0.15 if origin == "edit" else 1.0):
            judge_ctor(s, auto_slot, ref, origin)
        got = lib_parse(s, auto_slot)
        res.ev()
        if ref[0] == "ok":
            _, host, port, hops = ref
            want = refpath.route_bytes(hops)
            if got[0] != "ok":
                res.violation(f"valid-path-rejected:{origin}", f"parse_connection_path({s!r}, auto_slot={auto_slot}) -> {got[1]!r:.160}; grammar says host={host} port={port} hops={hops}",
                              {"path": s, "auto_slot": auto_slot})
            elif got[1] != host or got[2] != port or bytes(got[3]) != want:
                res.violation(f"wrong-route:{origin}", f"parse_connection_path({s!r}, auto_slot={auto_slot}) -> host={got[1]!r} port={got[2]!r} route={bytes(got[3]).hex()}; expected {host!r} {port!r} {want.hex()}",
                              {"path": s, "auto_slot": auto_slot})
            res.seen("ok", len(hops), tuple(type(l).__name__ for _, l in hops), port is not None, "".join(sorted(set(c for c in s if c in "/\\,"))), origin)
        else:
            if got[0] == "ok":
                res.violation(f"malformed-path-accepted:{ref[1]}", f"parse_connection_path({s!r}, auto_slot={auto_slot}) accepted ({ref[1]}): host={got[1]!r} port={got[2]!r} route={bytes(got[3]).hex()}",
                              {"path": s, "auto_slot": auto_slot})
            elif got[0] == "foreign":
                res.violation(f"malformed-path-foreign-exception:{type(got[1]).__name__}", f"parse_connection_path({s!r}) raised {got[1]!r:.160} ({ref[1]})", {"path": s})
            res.seen("reject", ref[1], origin)

    nroutes = 1500 if quick else 30000
    for i in range(nroutes):
        if not ctx.mine(i):
            continue
        host = refpath.gen_host(rng)
        port = rng.choice([None, None, 1, 2, 44818, 2222, 65534, rng.randint(1, 65534)])
        hops = refpath.gen_route(rng)
        auto = rng.random() < 0.5
        if auto and rng.random() < 0.5:
            hops = [(1, rng.choice([0, 0, 1, 2, 17, 255]))]
        spellings = set()
        for _ in range(8):
            if auto and not hops:
                break  # with auto_slot a bare address means bp/0, not the empty route
            spellings.add(refpath.spell(rng, host, port, hops, auto))
        for s in sorted(spellings):
            judge(s, auto, "grammar")
        if i < 3:
            res.sample({"route": hops, "spellings": sorted(spellings)[:4], "auto_slot": auto})
        # single-character edits of one spelling
        if spellings and ((i // ctx.nshards) % (4 if quick else 2) == 0):
            s = sorted(spellings)[0]
            edits = set()
            for pos in range(len(s) + 1):
                if pos < len(s):
                    edits.add(s[:pos] + s[pos + 1:])
                for ch in (ALPHABET if (pos % 3 == i % 3 or not quick) else rng.sample(ALPHABET, 6)):
                    edits.add(s[:pos] + ch + s[pos:])
                    if pos < len(s):
                        edits.add(s[:pos] + ch + s[pos + 1:])
            for e in sorted(edits):
                judge(e, auto, "edit")
    # explicit rejection classes at boundaries
    if ctx.mine(0):
        for auto in (False, True):
            for s in ["1.2.3.4:0", "1.2.3.4:65535", "1.2.3.4:65536", "1.2.3.4:99999", "1.2.3.4:-1", "1.2.3.4:", "1.2.3.4:12a", "1.2.3.4:1:2",
                      "1.2.3.4:44:818", "1.2.3.4::44818", "1.2.3.4/bp/256", "1.2.3.4/bp/999", "1.2.3.4/bp/-1", "1.2.3.4/enet/1.2.3", "1.2.3.4/enet/1.2.3.256",
                      "1.2.3.4/enet/1.2.3.4.5", "1.2.3.4/foo/1", "1.2.3.4/bpx/1", "1.2.3.4/bp/1/enet", "1.2.3.4/bp/1/enet/", "1.2.3.4//bp/1/2",
                      "1.2.3.4/bp//1", "1.2.3.4/bp/1,", "1.2.3.4/256", "1.2.3.4/abc", "1.2.3.4/bp/1/2/3", "1.2.3.4:1", "1.2.3.4:65534", "1.2.3.4:65534/bp/0"]:
                judge(s, auto, "boundary")

    # ---- driver constructors apply the shortcuts (and only Logix/SLC do) ------------------------------------
    if ctx.mine(1):
        def cfg(driver):
            if not isinstance(getattr(driver, "_cfg", None), dict) or "cip_path" not in driver._cfg:
                return None   # the driver keeps its route elsewhere: this white-box part cannot observe it
            try:
                return ("ok", driver._cfg["ip address"], driver._cfg["port"], bytes(p.PADDED_EPATH.encode(driver._cfg["cip_path"], length=True)))
            except Exception as e:  # noqa
                return ("exc", e)

        def construct(cls, s):
            try:
                return cls(s)
            except RequestError as e:
                return e
            except Exception as e:  # noqa
                return e

        for rep in range(300 if quick else 3000):
            host = refpath.gen_host(rng)
            slot = rng.choice([None, 0, 1, 5, 255])
            bare = host if slot is None else host + rng.choice(refpath.SEPS) + str(slot)
            for cls, auto in ((p.CIPDriver, False), (p.LogixDriver, True), (p.SLCDriver, True)):
                ref = refpath.classify(bare, auto)
                d = construct(cls, bare)
                res.ev()
                res.seen("ctor", cls.__name__, slot is None)
                if ref[0] == "ok":
                    want = ("ok", ref[1], ref[2] or 44818, refpath.route_bytes(ref[3]))
                    got = cfg(d) if not isinstance(d, Exception) else ("exc", d)
                    if got is None:
                        res.dont_care("driver-route-not-observable")
                    elif got != want:
                        res.violation(f"ctor-route:{cls.__name__}", f"{cls.__name__}({bare!r}) -> {got!r:.200}, expected {want!r:.200}", {"path": bare})
                elif ref[0] == "reject":
                    if not isinstance(d, RequestError):
                        ok_reject = False
                        if not isinstance(d, Exception):
                            try:
                                p.PADDED_EPATH.encode(d._cfg["cip_path"], length=True)
                            except DataError:
                                ok_reject = True
                        if not ok_reject:
                            res.violation(f"ctor-accepts-malformed:{cls.__name__}", f"{cls.__name__}({bare!r}) -> {d!r:.160} ({ref[1]})", {"path": bare})
            # a driver whose route was shortened in place (Micro800 initialisation pops the backplane hop) must not
            # change what later constructions / parses return
            d1 = construct(p.LogixDriver, host)
            if not isinstance(d1, Exception) and cfg(d1) is not None and d1._cfg["cip_path"]:
                d1._cfg["cip_path"].pop(-1)
                for cls, auto in ((p.LogixDriver, True), (p.SLCDriver, True)):
                    d2 = construct(cls, host)
                    res.ev()
                    res.seen("ctor-after-pop", cls.__name__)
                    got = cfg(d2) if not isinstance(d2, Exception) else ("exc", d2)
                    want = ("ok", host, 44818, refpath.route_bytes([(1, 0)]))
                    if got != want:
                        res.violation("ctor-route-aliased", f"after another driver's route was shortened in place, {cls.__name__}({host!r}) -> {got!r:.200}, expected {want!r:.200}", {"path": host})
                judge(host, True, "after-pop")

    # ---- end to end: route strings handed to generic_message, and the driver's route after helper calls ------------------------------------
    # (a) a route string outside the grammar (odd number of segments, unknown port, ...) is refused by every driver class - no
    #     shortcut expansion applies to it - and nothing reaches a device over an invented route;
    # (b) the route a driver was constructed with is the route it keeps using, whatever helpers were called in between.
    if ctx.shard == 0:
        from vlib.bench import Bench, ScenarioDead
        from vlib import devices, refslc
        from vlib import reftarget as rt
        for kind in ("cip", "logix", "slc") * (2 if quick else 10):
            try:
                b = Bench(rng)
                slot = rng.choice([0, 2, 5])
                if kind == "slc":
                    dev = refslc.SLCDevice(rt.Identity(name="1747-L552/C SLC 5/05"), rng, b.log, refslc.DataTable.random(rng))
                else:
                    dev = devices.ControllerDevice(devices.random_identity(rng), rng, b.log)
                dev.responder = lambda rq: (0, (), b"\x01\x00")
                other_slot = rng.choice([s_ for s_ in (1, 3, 7) if s_ != slot])
                other = devices.ControllerDevice(devices.random_identity(rng), rng, b.log)
                t = rt.RefTarget(rng, front=dev, routes={((1, slot),): dev, ((1, other_slot),): other}, log=b.log)
                # the TCP port of the path string is where the connection goes - for the driver and for the list_identity(path) class method
                port = rng.choice([44818, 44818, 2222, 10001, 65534])
                b.set_target(t, port=port)
                hp = b.host if port == 44818 and rng.random() < 0.7 else f"{b.host}:{port}"
                path = f"{hp}/{slot}" if kind != "cip" else f"{hp}/bp/{slot}"
                cls_ = {"cip": p.CIPDriver, "logix": p.LogixDriver, "slc": p.SLCDriver}[kind]
                # (LogixDriver.list_identity would run the whole Logix initialisation against this plain CIP device: asked through CIPDriver)
                lid_cls, lid_path = (cls_, path) if kind != "logix" else (p.CIPDriver, f"{hp}/bp/{slot}")
                st, idn_ = b.call("list_identity", lid_cls.list_identity, lid_path)
                res.ev()
                res.seen("list_identity(path)", kind, port)
                if st != "ok" or not isinstance(idn_, dict) or idn_.get("serial") != f"{dev.identity.serial:08x}":
                    res.violation(f"e2e-list-identity-path:{kind}", f"{lid_cls.__name__}.list_identity({lid_path!r}) -> {idn_!r:.160}; the device at port {port} has serial {dev.identity.serial:08x}", {"path": lid_path})
                drv = cls_(path, **({"init_tags": False} if kind == "logix" else {}))
                st, out = b.call("open", drv.open)
                if st != "ok" or not out:
                    res.ev()
                    res.violation(f"e2e-open:{kind}", f"{type(drv).__name__}({path!r}).open() -> {out!r:.160}", {"path": path})
                    b.close()
                    continue
                for bad in ["3", str(other_slot), "bp", "bp/1/enet", "1/2/3", "nosuchport/1", "bp/256", ""]:
                    if bad == "":
                        continue
                    n_before = sum(len(d_.journal) for d_ in (dev, other))
                    st, out = b.call("gm", drv.generic_message, service=0x0E, class_code=0x01, instance=1, attribute=1, connected=False, unconnected_send=True, route_path=bad)
                    res.ev()
                    res.seen("gm-route-string", kind, bad)
                    delivered = sum(len(d_.journal) for d_ in (dev, other)) - n_before
                    if delivered or (st == "ok" and out):
                        res.violation(f"malformed-route-string-accepted:{kind}", f"{type(drv).__name__}.generic_message(route_path={bad!r}) -> {out!r:.120}; {delivered} request(s) reached a device "
                                                                                f"(a route string outside the grammar must be refused)", {"route": bad})
                    elif st == "exc" and not isinstance(out, (RequestError, DataError, p.PycommError)):
                        res.violation(f"malformed-route-string-foreign-exception:{kind}:{type(out).__name__}", f"generic_message(route_path={bad!r}) raised {out!r:.120}", {"route": bad})
                # (b) helper call in between, then a routed request: it must still travel the constructed route
                b.call("get_module_info", drv.get_module_info, other_slot)
                n_dev, n_other = len(dev.journal), len(other.journal)
                st, out = b.call("gm", drv.generic_message, service=0x0E, class_code=0x01, instance=1, attribute=1, connected=False, unconnected_send=True)
                res.ev()
                res.seen("route-after-helper", kind)
                if len(dev.journal) != n_dev + 1 or len(other.journal) != n_other or tuple(dev.journal[-1]["route"]) != ((1, slot),):
                    res.violation(f"route-changed-by-helper:{kind}", f"{type(drv).__name__}({path!r}): after get_module_info({other_slot}) a routed message went to "
                                                                      f"{'the other module' if len(other.journal) != n_other else 'nowhere'} instead of the route {((1, slot),)!r} of the path string", {"path": path})
                b.call("close", drv.close)
                b.log.violations.clear()
                b.close()
            except ScenarioDead:
                continue
    return res
