"""C08 - codec failures are DataError: never foreign, silent or non-terminating."""
from io import BytesIO

from vlib import common
from vlib import refcodec as rc
from vlib import typegrammar as tg
from vlib.monitors import StepBudget

LEVEL = "exploration"
SHARDS = {"quick": 4, "thorough": 16}
TIMEOUT = {"quick": 900, "thorough": 2400}
BUDGET = 200_000
MIN_EVALUATIONS = {"quick": 20000, "thorough": 20000}  # fewer oracle evaluations than this means the workload collapsed: inconclusive
RULE = ("for every elementary/string/bit-string type and generated Array/Struct/StructTag/FixedSizeString/n_bytes composition: "
        "encode(out-of-domain value) over the classes {range+-1, 2^64, None, wrong python type, wrong container shape, unencodable "
        "character, over-long for the prefix, too few elements, wrong bit count, missing key} must raise DataError - also float / Decimal / "
        "Fraction values numerically equal to a valid value that was encoded just before (rejection may not depend on history); decode of every "
        "truncation point of valid encodings, the empty buffer and random bytes must raise DataError whenever the reference parser "
        "runs out of bytes (BufferEmptyError only when the buffer ends exactly where a value starts); T[None] over whole elements "
        "must return exactly those elements; the smallest COMPLETE encodings of the string codecs (empty STRINGN at character sizes 1/2/4, empty "
        "SHORT_STRING / STRING / STRING2 / STRINGI, unbounded arrays with empty elements inside and last) must decode to the expected value; every truncation "
        "point of complete ListIdentityObject / ModuleIdentityObject / Revision / IPAddress / StructTemplateAttributes encodings must raise; every call runs under a 200k line-event budget (sys.monitoring). "
        "distinct = (type shape, bad-value class | truncation class) evaluated")
ASSUMPTIONS = [
    "domain predicates from the CIP spec (integer ranges, float32 range, ISO-8859-1 / one code unit characters, prefix capacity, exact bit-string length)",
    "documented leniency is not judged: BOOL truthiness, bool-as-int, n_bytes slicing of longer/shorter bytes-like input, extra positional struct values, over-long array inputs",
    "a trailing partial element of an unbounded array that ends exactly at a value start may end the array silently (BufferEmptyError is the loop terminator by design)",
    "step budget of 200 000 line events per call stands for 'terminates'",
]
ANCHORS = [
    ("pycomm3/cip/data_types.py", "DataType.encode"), ("pycomm3/cip/data_types.py", "DataType.decode"),
    ("pycomm3/cip/data_types.py", "DataType._stream_read"), ("pycomm3/cip/data_types.py", "DATE_AND_TIME.encode"),
    ("pycomm3/cip/data_types.py", "STRINGN.encode"), ("pycomm3/cip/data_types.py", "EPATH.encode"),
    ("pycomm3/cip/data_types.py", "STRINGI.encode"), ("pycomm3/cip/data_types.py", "STRINGI.decode"),
    ("pycomm3/cip/data_types.py", "Array.encode"), ("pycomm3/cip/data_types.py", "Array.decode"),
    ("pycomm3/cip/data_types.py", "Array._decode_all"), ("pycomm3/cip/data_types.py", "CIPSegment.encode"),
]


def kkey(case):
    if case.depth == 0 and case.desc[0] not in ("struct", "udt", "fixstr", "bytes"):
        return case.label
    return case.desc[0]


class Bench:
    def __init__(self, res, p, budget):
        self.res, self.p, self.budget = res, p, budget
        self.DataError = p.DataError
        self.BufferEmptyError = p.BufferEmptyError

    def enc_bad(self, case, cls_label, bad):
        res = self.res
        if rc.in_domain(case.desc, bad):
            return
        res.ev()
        res.seen(kkey(case), "enc", cls_label)
        st, out = self.budget.call(BUDGET + 400 * rc.min_size(case.desc), case.lib.encode, bad)
        if st == "ok":
            res.violation(f"encode-silent:{kkey(case)}:{cls_label}",
                          f"{case.label}.encode({bad!r:.120}) returned {out!r:.120} for an out-of-domain value ({cls_label})",
                          {"type": case.label, "value": bad})
        elif st == "budget":
            res.violation(f"encode-nonterminating:{kkey(case)}", f"{case.label}.encode({bad!r:.120}): {out}", {"type": case.label})
        elif not isinstance(out, self.DataError):
            res.violation(f"encode-foreign:{kkey(case)}:{type(out).__name__}",
                          f"{case.label}.encode({bad!r:.120}) raised {type(out).__name__}: {out!s:.160} (not DataError; {cls_label})",
                          {"type": case.label, "value": bad})

    def dec_expect_error(self, case, data, tclass, remaining=None, as_stream=True):
        """reference could not parse `data` (ran out of bytes or malformed): library must raise DataError."""
        res = self.res
        res.ev()
        res.seen(kkey(case), "dec", tclass)
        arg = BytesIO(bytes(data)) if as_stream else bytes(data)
        st, out = self.budget.call(BUDGET + 400 * len(data), case.lib.decode, arg)
        if st == "ok":
            res.violation(f"decode-silent:{kkey(case)}:{tclass}",
                          f"{case.label}.decode({bytes(data)[:48].hex()} [{len(data)}B]) returned {out!r:.140} from bytes too short/malformed for the type ({tclass})",
                          {"type": case.label, "data": bytes(data)})
        elif st == "budget":
            res.violation(f"decode-nonterminating:{kkey(case)}", f"{case.label}.decode([{len(data)}B]): {out}", {"type": case.label, "data": bytes(data)})
        elif not isinstance(out, self.DataError):
            res.violation(f"decode-foreign:{kkey(case)}:{type(out).__name__}",
                          f"{case.label}.decode({bytes(data)[:48].hex()} [{len(data)}B]) raised {type(out).__name__}: {out!s:.160}",
                          {"type": case.label, "data": bytes(data)})
        elif isinstance(out, self.BufferEmptyError) and remaining is not None and remaining > 0:
            res.violation(f"decode-bufferempty-midvalue:{kkey(case)}",
                          f"{case.label}.decode([{len(data)}B]) raised BufferEmptyError although {remaining} byte(s) remain where the next value starts",
                          {"type": case.label, "data": bytes(data)})

    def truncations(self, case, full, rng, every):
        """full = a valid complete input for case.lib.decode"""
        desc = case.desc
        rc.TRACE = []
        try:
            rc.decode(desc, full)
        except rc.RefError:
            rc.TRACE = None
            return
        starts = set(rc.TRACE)
        rc.TRACE = None
        n = len(full)
        pts = set(range(n)) if (every or n <= 48) else ({0, 1, 2, 3, 4, n - 1, n - 2, n - 3} | set(starts) | {s + 1 for s in starts}
                                                      | {rng.randrange(n) for _ in range(8)})
        for t in sorted(x for x in pts if 0 <= x < n):
            data = full[:t]
            try:
                val, used = rc.decode(desc, data)
            except rc.Short as sh:
                tclass = "empty" if t == 0 else ("at-value-start" if sh.remaining <= 0 else "mid-value")
                if tg.contains_uarray(desc) and sh.remaining <= 0 and t > 0:
                    self.res.dont_care("unbounded-array-partial-tail-at-value-start")
                    continue
                self.dec_expect_error(case, data, tclass, sh.remaining, as_stream=bool(t % 2))
                continue
            except rc.RefError:
                self.dec_expect_error(case, data, "malformed", None)
                continue
            except (UnicodeDecodeError, ValueError):
                continue
            # reference parses the shorter buffer: only legal for rest-consuming types
            if desc[0] == "uarray":
                self.res.ev()
                self.res.seen(kkey(case), "whole-elements", min(len(val), 8))
                st, out = self.budget.call(BUDGET + 400 * len(data), case.lib.decode, BytesIO(data))
                if st != "ok" or not rc.values_equal(desc, val, out):
                    self.res.violation(f"unbounded-array-whole-elements:{kkey(case)}",
                                       f"{case.label}.decode([{len(data)}B = {len(val)} whole elements]) -> {out!r:.160}, expected exactly {val!r:.120}",
                                       {"type": case.label, "data": data})


def run(ctx):
    res = common.Result("C08")
    import pycomm3 as p
    rng = ctx.rng()
    quick = ctx.quick
    budget = StepBudget().start()
    budget.arm()
    b = Bench(res, p, budget)
    elems = tg.elementary_cases(p)
    work = 0

    cases = list(elems) + [tg.nbytes_case(p, k) for k in (1, 2, 4, 8, 33)] + [tg.ipaddress_case(p), tg.revision_case(p)]
    cases += [tg.fixstr_case(p, c, ln) for c in (1, 2, 4, 12, 82, 83) for ln in ("UDINT", "DINT")]
    for i in range(500 if quick else 6000):
        c = tg.gen_type(p, rng, rng.choice([1, 2, 2, 3]))
        if c.depth == 0 and c.desc[0] not in ("struct", "udt"):
            continue
        cases.append(c)

    for case in cases:
        work += 1
        if not ctx.mine(work):
            continue
        res.count("types")
        # ---- encode: out-of-domain values ------------------------------------------------------
        for lbl, bad in tg.bad_values(case.desc, rng):
            b.enc_bad(case, lbl, bad)
        # Rejection may not depend on what was encoded before: first a VALID value, then values of a wrong Python type that are
        # numerically equal to it (1.0, Decimal(1), Fraction(1) after 1) - a memoised packer keyed on equality would let them pass.
        d_ = case.desc
        if d_[0] == "int" or (d_[0] == "array" and d_[1] > 0 and d_[2][0] == "int"):
            import decimal
            import fractions
            for _rep in range(3):
                v = tg.gen_value(d_, rng, small=True)
                if not rc.in_domain(d_, v):
                    continue
                budget.call(BUDGET + 400 * rc.min_size(d_), case.lib.encode, v)   # the valid value first
                leaves = v if isinstance(v, list) else [v]
                if any(float(x) != x for x in leaves):
                    continue
                for lbl, conv in (("equal-float-after-valid", float), ("equal-Decimal-after-valid", decimal.Decimal), ("equal-Fraction-after-valid", fractions.Fraction)):
                    bad = [conv(x) for x in v] if isinstance(v, list) else conv(v)
                    b.enc_bad(case, lbl, bad)
        # ---- decode: truncations of valid encodings, empty buffer, random bytes -----------------
        for rep in range(8 if case.depth == 0 else 4):
            v = tg.gen_value(case.desc, rng, small=True)
            if not rc.in_domain(case.desc, v):
                continue
            try:
                enc = rc.encode(case.desc, v)
            except Exception:  # noqa
                continue
            if case.kind == "larray":
                n = len(v) // (8 * case.desc[2][1]) if case.desc[2][0] == "bits" else len(v)
                enc = rc.encode(case.desc[1], n) + enc
            if len(enc) > 6000:
                continue
            b.truncations(case, enc, rng, every=(case.depth == 0 and len(enc) <= 300))
        if rc.min_size(case.desc) > 0:
            b.dec_expect_error(case, b"", "empty", 0, as_stream=True)
            b.dec_expect_error(case, b"", "empty", 0, as_stream=False)
        for _ in range(6):
            data = bytes(rng.randrange(256) for _ in range(rng.choice([1, 2, 3, 5, 9, 17, 40])))
            rc.TRACE = []
            try:
                rc.decode(case.desc, data)
                rc.TRACE = None
                res.count("random_bytes_parsable")
            except rc.Short as sh:
                rc.TRACE = None
                if tg.contains_uarray(case.desc) and sh.remaining <= 0:
                    continue
                b.dec_expect_error(case, data, "random-short", sh.remaining)
            except rc.RefError as e_:
                rc.TRACE = None
                # bytes "malformed for the type": character data that is not a valid sequence in the type's encoding (an unpaired
                # UTF-16 surrogate, an invalid UTF-8 / UTF-32 unit, a character size STRINGN does not define) must raise, not be
                # replaced or dropped.  Negative lengths of signed length prefixes stay don't-cares (nothing documents them).
                if "string data" in str(e_) or "char size" in str(e_):
                    b.dec_expect_error(case, data, "random-malformed-characters", None)
                else:
                    res.dont_care("random-bytes-malformed-otherwise")
            except (UnicodeDecodeError, ValueError):
                rc.TRACE = None

    # ---- special public encoders that repeat the wrapping themselves ---------------------------
    if ctx.shard == 0:  # deterministic: `work` differs between shards (each generates its own random type list)
        DataError = p.DataError

        def must_raise(label, fn, *a):
            res.ev()
            res.seen("special", label)
            st, out = budget.call(BUDGET, fn, *a)
            if st == "ok":
                res.violation(f"special-silent:{label}", f"{label}{a!r:.160} returned {out!r:.120}", None)
            elif st == "budget":
                res.violation(f"special-nonterminating:{label}", f"{label}: {out}", None)
            elif not isinstance(out, DataError):
                res.violation(f"special-foreign:{label}:{type(out).__name__}", f"{label}{a!r:.160} raised {type(out).__name__}: {out!s:.120}", None)

        for bad in [(1 << 32, 1), (-1, 1), (1, 1 << 16), (None, 1), ("a", 1), (1.5, 2), (1, None)]:
            must_raise("DATE_AND_TIME.encode", p.DATE_AND_TIME.encode, *bad)
        for bad in [("abc", 3), ("abc", 0), (None, 1), (5, 1), (b"ab", 2), ("a" * 65536, 1), ("\ud800", 2), ("é", 8)]:
            must_raise("STRINGN.encode", p.STRINGN.encode, *bad)
        for bad in [(("abc", p.STRING, "eng"),), (("abc", p.DINT, "eng", 4),), ((5, p.STRING, "eng", 4),), (("a", p.STRING, "eng", 1 << 16),),
                    (None,), (("a", p.STRING, "engé", 4),)]:
            must_raise("STRINGI.encode", p.STRINGI.encode, *bad)
        from pycomm3 import DataSegment, LogicalSegment, PortSegment
        for bad in [[PortSegment("nosuchport", 1)], [PortSegment("bp", 256)], [PortSegment("bp", "1.2.3.256")], [PortSegment("bp", -1)],
                    [LogicalSegment(1 << 32, "instance_id")], [LogicalSegment(5, "no_such_type")], [LogicalSegment(b"\x01\x02\x03", "class_id")],
                    [LogicalSegment(-1, "class_id")], [5], [None], None, [DataSegment(5)], [PortSegment(None, 1)]]:
            must_raise("PADDED_EPATH.encode", p.PADDED_EPATH.encode, bad)
        for bad in [PortSegment("x", 1), PortSegment("bp", "999"), PortSegment("enet", "1.2.3")]:
            must_raise("PortSegment.encode", PortSegment.encode, bad)
        for data in [b"", b"\x01", b"\x01\x00", b"\x03\x00\x02\x00a", b"\x02\x00\x01\x00", b"\x01\x00\x05\x00ab"]:
            must_raise("STRINGN.decode", p.STRINGN.decode, data)
        for data in [b"\x01", b"\x01eng", b"\x01eng\xd0", b"\x01eng\x01\x04\x00\x01\x00a", b"\x02eng\xda\x04\x00\x01a", b"\x01eng\xd0\x04\x00\x05\x00ab"]:
            must_raise("STRINGI.decode", p.STRINGI.decode, data)
        # The other side of "BufferEmptyError only when no bytes remain where a value should start": a COMPLETE encoding of a
        # boundary value - nothing is missing - must decode, and an unbounded array over whole elements returns exactly those
        # elements, also when one of them is empty.
        def must_decode(label, fn, data, want):
            res.ev()
            res.seen("special-ok", label)
            st, out = budget.call(BUDGET, fn, data)
            if st != "ok":
                res.violation(f"complete-encoding-rejected:{label}:{type(out).__name__ if st == 'exc' else st}",
                              f"{label}({bytes(data).hex()}) raised {out!r:.120} although the buffer holds a complete value ({want!r:.60})", None)
            elif out != want:
                res.violation(f"complete-encoding-wrong:{label}", f"{label}({bytes(data).hex()}) = {out!r:.120}, expected {want!r:.80}", None)

        for cs in (1, 2, 4):
            must_decode("STRINGN.decode", p.STRINGN.decode, cs.to_bytes(2, "little") + b"\x00\x00", "")
        enc_ = {1: "utf-8", 2: "utf-16-le", 4: "utf-32-le"}
        for cs in (1, 2, 4):
            buf = b"".join(cs.to_bytes(2, "little") + len(s_).to_bytes(2, "little") + s_.encode(enc_[cs]) for s_ in ("ab", "", "cd", ""))
            must_decode("STRINGN[None].decode", p.STRINGN[None].decode, buf, ["ab", "", "cd", ""])
        must_decode("SHORT_STRING.decode", p.SHORT_STRING.decode, b"\x00", "")
        must_decode("STRING.decode", p.STRING.decode, b"\x00\x00", "")
        must_decode("STRING2.decode", p.STRING2.decode, b"\x00\x00", "")
        must_decode("SHORT_STRING[None].decode", p.SHORT_STRING[None].decode, b"\x02ab\x00\x01c\x00", ["ab", "", "c", ""])
        must_decode("STRINGI.decode", p.STRINGI.decode, b"\x01eng\xd0\x04\x00\x00\x00", (["" ], ["eng"], [4]))
        # "rest of the buffer" byte strings (n_bytes(-1)): with no bytes left there is no value to start - BufferEmptyError, which is what
        # ends an unbounded array of them (round 13, R09-m2: an empty read returned b"" and such an array never ended)
        rest = p.n_bytes(-1)
        must_raise("n_bytes(-1).decode(empty)", rest.decode, b"")
        must_raise("Struct(UINT, n_bytes(-1)).decode(no rest)", p.Struct(p.UINT("a"), p.n_bytes(-1, "rest")).decode, b"\x01\x00")
        must_decode("n_bytes(-1).decode", rest.decode, b"abc", b"abc")
        must_decode("Array(None, n_bytes(-1)).decode", p.Array(None, rest).decode, b"abc", [b"abc"])
        must_decode("Array(None, n_bytes(2)).decode", p.Array(None, p.n_bytes(2)).decode, b"abcd", [b"ab", b"cd"])
        from pycomm3 import ModuleIdentityObject
        for bad in [{}, None, 5, {"vendor": "no such vendor"},
                    {"vendor": "ODVA", "product_type": "nope", "product_code": 1, "revision": {"major": 1, "minor": 1}, "status": b"ab", "serial": "00000001", "product_name": "x"},
                    {"vendor": "ODVA", "product_type": "AC Drive", "product_code": 1, "revision": {"major": 1, "minor": 1}, "status": b"ab", "serial": "zz", "product_name": "x"}]:
            must_raise("ModuleIdentityObject.encode", ModuleIdentityObject.encode, bad)
        for data in [b"", b"\x01\x00", bytes(14), bytes(14) + b"\x05ab"]:
            must_raise("ModuleIdentityObject.decode", ModuleIdentityObject.decode, data)
        # character data that is not a valid sequence in the type's encoding is "malformed for the type": unpaired / reversed UTF-16
        # surrogates, invalid UTF-8, a UTF-32 unit beyond U+10FFFF - never replaced or dropped silently
        for data in [b"\x01\x00\x00\xd8", b"\x01\x00\x00\xdc", b"\x02\x00\x00\xdc\x00\xd8", b"\x02\x00\x41\x00\xff\xdb", b"\x03\x00\x00\xd8\x41\x00\x42\x00"]:
            must_raise("STRING2.decode(malformed characters)", p.STRING2.decode, data)
            must_raise("STRINGN.decode(malformed characters)", p.STRINGN.decode, b"\x02\x00" + data)
            must_raise("STRINGI.decode(malformed characters)", p.STRINGI.decode, b"\x01eng\xd5\xe8\x03" + data)
        for data in [b"\x01\x00\x01\x00\xff", b"\x01\x00\x02\x00\xc3\x28", b"\x01\x00\x03\x00\xe2\x82\x28", b"\x04\x00\x01\x00\x00\x00\x11\x00", b"\x04\x00\x01\x00\x00\xd8\x00\x00"]:
            must_raise("STRINGN.decode(malformed characters)", p.STRINGN.decode, data)
        # the `length` argument of Array.decode (keyword and positional), on unbounded and fixed array types: it says how many elements
        # the caller expects - fewer in the buffer is "not enough data", never a shorter list
        for et, vals in [(p.UINT, [1, 2, 65535]), (p.DINT, [-1, 0, 7, 2 ** 31 - 1]), (p.SINT, [5]), (p.REAL, [1.5, -2.0]), (p.STRING, ["a", "", "xyz"]), (p.LINT, [2 ** 40, -3])]:
            buf = b"".join(et.encode(v) for v in vals)
            k = len(vals)
            for at in (et[None], et[k], et[k + 3]):
                lab = f"{et.__name__}[{'None' if at is et[None] else at.length}].decode(length=)"
                must_decode(lab, lambda b_, at=at, k=k: at.decode(b_, length=k), buf, vals)
                must_decode(lab, lambda b_, at=at, k=k: at.decode(b_, k), buf, vals)
                if k > 1:
                    must_decode(lab, lambda b_, at=at, k=k: at.decode(b_, length=k - 1), buf, vals[:-1])
                must_raise(lab, lambda b_, at=at, k=k: at.decode(b_, length=k + 1), buf)
                must_raise(lab, lambda b_, at=at, k=k: at.decode(b_, k + 2), buf)
        # the exported composite objects (identity items, revision, IP address, template attributes): EVERY truncation point of a
        # complete encoding built by hand - also the one that cuts only the final byte - is "not enough data"
        import struct as _st
        from pycomm3.custom_types import StructTemplateAttributes, ListIdentityObject, Revision, IPAddress
        rng_ = ctx.rng()
        for _ in range(6):
            name = bytes(rng_.randrange(32, 127) for _ in range(rng_.choice([0, 1, 7, 32])))
            ident = (_st.pack("<HHHBB2sI", rng_.choice([1, 5, 0xFFFF]), rng_.choice([0x0C, 0x0E, 0x7FFF]), rng_.randrange(65536), rng_.randrange(256), rng_.randrange(256),
                              bytes([rng_.randrange(256), rng_.randrange(256)]), rng_.getrandbits(32)) + bytes([len(name)]) + name)
            li = (_st.pack("<HHHhH4sQ", 0x0C, len(ident) + 21, 1, 2, rng_.randrange(65536), bytes(rng_.randrange(256) for _ in range(4)), 0) + ident + bytes([rng_.randrange(256)]))
            for label, fn, full in [("ModuleIdentityObject.decode", ModuleIdentityObject.decode, ident), ("ListIdentityObject.decode", ListIdentityObject.decode, li),
                                    ("Revision.decode", Revision.decode, ident[6:8]), ("IPAddress.decode", IPAddress.decode, li[10:14]),
                                    ("StructTemplateAttributes.decode", StructTemplateAttributes.decode,
                                     _st.pack("<HHHIHHIHHHHHH", 4, 4, 0, rng_.getrandbits(32), 5, 0, rng_.getrandbits(32), 2, 0, rng_.randrange(65536), 1, 0, rng_.randrange(65536)))]:
                st_, out_ = budget.call(BUDGET, fn, full)
                res.ev()
                if st_ != "ok":
                    res.violation(f"complete-encoding-rejected:{label}:{type(out_).__name__ if st_ == 'exc' else st_}", f"{label}({full.hex()}) raised {out_!r:.120} on a complete encoding", None)
                    continue
                for k in range(len(full)):
                    must_raise(label, fn, full[:k])

    budget.disarm()
    budget.stop()
    res.notes["max_line_events_in_one_call"] = budget.max_seen
    res.sample({"type": "DINT", "bad_value": "2**31", "expected": "DataError"})
    res.sample({"type": "STRING", "truncation": "0500 6162 (declares 5 chars, holds 2)", "expected": "DataError"})
    return res
