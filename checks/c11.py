"""C11 - every emitted frame is a well-formed EtherNet/IP encapsulation message.
Passive: the reference target's strict frame monitor watches every frame of lifecycle histories (with faults and
re-opens), generic-message sweeps over all payload lengths and Logix read/write/upload traffic; session handles and
connection ids are chosen at random by the target.  Plus: every OS-level send() call must carry exactly one frame."""
from vlib.bench import Bench, ScenarioDead
from vlib import common, lifecycle, logixreq
from vlib import refencap as enc
from vlib import reftarget as rt
from vlib.logixbench import CONFIGS, LogixScenario

LEVEL = "exploration"
SHARDS = {"quick": 8, "thorough": 16}
TIMEOUT = {"quick": 900, "thorough": 3000}
MIN_EVALUATIONS = {"quick": 10000, "thorough": 10000}  # fewer oracle evaluations than this means the workload collapsed: inconclusive
RULE = ("every frame the library writes to the (fake) socket during: lifecycle histories of CIP/Logix drivers with transport faults and "
        "re-opens; generic messages with request data of EVERY length 0..600 and random lengths to 3990 over connected / UCMM / Unconnected "
        "Send; Logix uploads, multi-service / fragmented / read-modify-write traffic on ten controller configurations - is parsed by the "
        "strict encapsulation + common-packet-format parser of the reference target: header length field = bytes following, known command, "
        "session handle = the one the target granted (0 only before registration - also for ListIdentity, once the client has read the grant; "
        "handles and connection ids now and then from the ends of the 32-bit range: 0, 1, 0x80000000, 0xFFFFFFFF), status 0, options 0, exactly two items with exact item "
        "lengths, null address for SendRRData, connection address carrying the target's O->T id and sequence-count-first data for "
        "SendUnitData; three long-lived connections (CIP generic messages, SLC reads, Micro800 reads) issue > 66 000 connected messages each so "
        "frames with every 16-bit sequence count and the wrap are observed; additionally each OS-level send() call must be exactly one frame; the same histories on a socket with a random short-write schedule (one frame accepted in up to many "
        "pieces) must put the identical byte stream on the wire; the UDP datagram of discover() is checked too (length field = bytes after the 24-byte header, status / options 0). distinct = (command, request kind, payload length "
        "class, scenario kind) of frames observed")
ASSUMPTIONS = [
    "an unconnected request sent with session handle 0 after a failed registration is not judged ('zero only before registration')",
    "sender context and timeout values are free",
]
ANCHORS = [
    ("pycomm3/packets/base.py", "RequestPacket._build_header"), ("pycomm3/packets/base.py", "RequestPacket._build_common_packet_format"),
    ("pycomm3/packets/base.py", "RequestPacket.build_request"), ("pycomm3/packets/ethernetip.py", "SendUnitDataRequestPacket._setup_message"),
    ("pycomm3/packets/ethernetip.py", "SendRRDataRequestPacket._build_common_packet_format"), ("pycomm3/packets/ethernetip.py", "RegisterSessionRequestPacket._setup_message"),
    ("pycomm3/cip_driver.py", "CIPDriver.send"), ("pycomm3/packets/logix.py", "MultiServiceRequestPacket.build_message"),
]


def drain(res, b, scenario, extra=None, one_frame_per_send=True):
    """move the C11 findings of this bench into the result; check OS-level framing"""
    for pid, key, what, w in b.log.violations:
        if pid == "C11":
            res.violation(key, f"{what} [{scenario}]", {"scenario": scenario, "extra": extra, "frame_head": w})
    b.log.violations.clear()
    if not one_frame_per_send:
        # the OS took the frames in pieces (short writes): the library rightly calls send() again with the remainder, so the unit
        # of judgement is the byte STREAM, which the target's parser reassembles and checks
        res.count("frames-sent-in-pieces", len(b.net.send_calls))
        b.net.send_calls.clear()
        return
    for call in b.net.send_calls:
        res.ev()
        ok = len(call) >= 24 and len(call) == 24 + enc.u16(call, 2)
        if not ok:
            res.violation("send-call-not-one-frame", f"one socket send() carried {len(call)} bytes whose header announces {enc.u16(call, 2) if len(call) >= 4 else '?'} following bytes [{scenario}]",
                          {"scenario": scenario, "bytes": call[:64]})
        else:
            cmd = enc.u16(call, 0)
            kind = ""
            if cmd == 0x70 and len(call) > 46:
                kind = f"svc{call[46]:02x}"
            elif cmd == 0x6F and len(call) > 40:
                kind = f"svc{call[40]:02x}"
            n = len(call) - 24
            res.seen(cmd, kind, n if n < 64 else 64 + n // 64, scenario.split(":")[0])
    res.count("frames", len(b.net.send_calls))
    b.net.send_calls.clear()


def run(ctx):
    res = common.Result("C11")
    rng = ctx.rng()
    quick = ctx.quick
    # ---- (1) lifecycle histories with faults and re-opens ----------------------------------------------------------------------
    plan = []
    prng = common.rng_for("C11", ctx.seed, 0, "plan")
    for h in lifecycle.histories(lifecycle.CIP_OPS, 2):
        plan.append(("cip", h))
    for h in lifecycle.histories(lifecycle.LOGIX_OPS, 1):
        plan.append(("logix", h))
    for _ in range(60 if quick else 600):
        kind = prng.choice(["cip", "logix"])
        ops = lifecycle.CIP_OPS if kind == "cip" else lifecycle.LOGIX_OPS
        plan.append((kind, tuple(prng.choice(ops) for _ in range(prng.randint(2, 6)))))
    for idx, (kind, hist) in enumerate(plan):
        if not ctx.mine(idx):
            continue
        pol = rng.choice(lifecycle.POLICIES)
        try:
            base = lifecycle.Run(rng, kind, hist, pol, None).execute()
        except ScenarioDead:
            continue
        drain(res, base.b, f"lifecycle:{kind}:{pol}", list(hist))
        n_ops = base.io_ops_total
        base.finish()
        for k in sorted({rng.randint(1, max(1, n_ops)) for _ in range(4 if quick else 12)}):
            fk = rng.choice(lifecycle.FAULT_KINDS)
            try:
                r = lifecycle.Run(rng, kind, hist, pol, (k, fk)).execute()
            except ScenarioDead:
                continue
            drain(res, r.b, f"lifecycle:{kind}:{pol}:fault", [list(hist), k, fk])
            r.finish()
            res.count("lifecycle-runs")
    # ---- (2) generic messages: every payload length ----------------------------------------------------------------------------------
    lengths = list(range(0, 601)) + [rng.randrange(601, 3971) for _ in range(80 if quick else 800)] + [3950, 3960, 3970]
    for part in range(ctx.nshards):
        if part != ctx.shard:
            continue
        try:
            b = Bench(rng)
            t, dev = b.simple_target()
            dev.responder = lambda rq: (0, (), b"ok")
            import pycomm3 as p
            drv = p.CIPDriver(b.host + "/bp/0")
            b.call("open", drv.open)
            for i, n in enumerate(lengths):
                if i % ctx.nshards != ctx.shard:
                    continue
                data = bytes(rng.randrange(256) for _ in range(n))
                for mode in ("connected", "ucmm", "usend"):
                    if mode != "connected" and n > 480:
                        continue
                    kw = {"connected": True} if mode == "connected" else {"connected": False, "unconnected_send": mode == "usend"}
                    st, out = b.call("gm", drv.generic_message, service=rng.randrange(1, 0x7F), class_code=rng.choice([0x64, 0x300, 0x12345]),
                                     instance=rng.choice([1, 0x1234, 0x123456]), request_data=data, **kw)
                    if st != "ok" or not out:
                        res.ev()
                        res.violation("generic-message-fails", f"generic_message with {n} data bytes ({mode}) -> {out!r:.160}", {"n": n, "mode": mode})
            b.call("close", drv.close)
            drain(res, b, "generic-sweep")
            # the UDP side: discover() broadcasts ListIdentity datagrams, each of which is one encapsulation frame too
            st, found = b.call("discover", p.CIPDriver.discover)
            res.ev()
            res.seen("udp", "discover", st)
            if st != "ok" or not isinstance(found, list) or not found:
                res.violation("discover-finds-nothing", f"CIPDriver.discover() against a target that answers broadcast ListIdentity -> {found!r:.160}", None)
            res.count("udp-datagrams", b.log.counts.get("udp-datagrams", 0))
            drain(res, b, "discover")
            b.close()
        except ScenarioDead:
            pass
    # ---- (2b) the same sweep while the OS takes every frame in pieces (short writes): the byte stream must still be whole frames ----------------
    if ctx.shard % 2 == 0:
        try:
            from vlib import fakesock
            b = Bench(rng)
            t, dev = b.simple_target()
            dev.responder = lambda rq: (0, (), b"ok")
            import pycomm3 as p
            drv = p.CIPDriver(b.host + "/bp/0")
            b.net.schedule = fakesock.RandomSchedule(rng, p_split=0.85, max_chunk=rng.choice([1, 7, 64, 300, 700, 1500]))
            b.net.call_budget = 400000
            b.call("open", drv.open)
            for n in [0, 1, 2, 40, 100, 400, 480, 900, 1400, 2000, 3000, 3900, 3970] + [rng.randrange(0, 3971) for _ in range(10 if quick else 100)]:
                data = bytes(rng.randrange(256) for _ in range(n))
                for mode in ("connected", "ucmm", "usend"):
                    if mode != "connected" and n > 480:
                        continue
                    kw = {"connected": True} if mode == "connected" else {"connected": False, "unconnected_send": mode == "usend"}
                    j0 = len(dev.journal)
                    st, out = b.call("gm", drv.generic_message, service=rng.randrange(1, 0x7F), class_code=0x64, instance=1, request_data=data, **kw)
                    res.ev()
                    res.seen("short-writes", mode, n if n < 64 else 64 + n // 256)
                    got = dev.journal[-1]["data"] if len(dev.journal) == j0 + 1 else None
                    if st != "ok" or not out or got is None or (mode != "ucmm" and got != data) or (mode == "ucmm" and not got.startswith(data)):
                        res.violation("frame-damaged-by-short-writes", f"generic_message with {n} data bytes ({mode}) while the OS accepts at most {b.net.schedule.max_chunk} bytes per send(): "
                                                                       f"-> {out!r:.120}; the target received {None if got is None else len(got)} request-data bytes", {"n": n, "mode": mode})
                        break
            b.call("close", drv.close)
            drain(res, b, "short-writes", one_frame_per_send=False)
            b.close()
        except ScenarioDead:
            pass
    # ---- (3) Logix traffic ---------------------------------------------------------------------------------------------------------------------
    for pi in range(6 if quick else 60):
        try:
            sc = LogixScenario(rng, size=rng.choice(["small", "medium", "large"]), config=CONFIGS[(pi * ctx.nshards + ctx.shard) % len(CONFIGS)])
            if sc.ok():
                for ci in range(12):
                    k = rng.choice([1, 2, 5, 12, 25])
                    if rng.random() < 0.5:
                        reqs = [logixreq.gen_request(sc.prj, rng, sc.conn_size) for _ in range(k)]
                        sc.b.call("read", sc.drv.read, *[r.text for r in reqs])
                    else:
                        reqs = [logixreq.attach_value(logixreq.gen_request(sc.prj, rng, sc.conn_size, for_write=True), rng) for _ in range(k)]
                        sc.b.call("write", sc.drv.write, *[(r.text, r.value) for r in reqs])
                sc.dev.finish_transfers()
                sc.b.call("close", sc.drv.close)
            drain(res, sc.b, f"logix:{sc.label}")
            sc.b.close()
        except ScenarioDead:
            continue
    # ---- (4) long-lived connections: frames carrying every 16-bit sequence count, across the wrap -----------------------------------------------
    long_kind = {0: "cip", 1: "slc", 2: "logix"}.get(ctx.shard) if quick else {0: "cip", 1: "slc", 2: "logix", 3: "cip", 4: "slc"}.get(ctx.shard)
    if long_kind:
        try:
            import pycomm3 as p
            if long_kind == "logix":
                sc = LogixScenario(rng, size="small", config=CONFIGS[8])  # Micro800: one connected message per tag
                b, drv, ok = sc.b, sc.drv, sc.ok()
                names = [t.full_name for t in sc.prj.user_tags() if t.dtype.kind == "atomic" and not t.dims][:4] or [sc.prj.user_tags()[0].full_name]
                def issue(i):
                    return b.call("read", drv.read, *[names[i % len(names)]] * 250)
            elif long_kind == "slc":
                from vlib import refslc
                b = Bench(rng)
                dev = refslc.SLCDevice(rt.Identity(name="1747-L552/C SLC 5/05"), rng, b.log, refslc.DataTable.random(rng))
                b.set_target(rt.RefTarget(rng, front=dev, routes={((1, 0),): dev}, policy=rt.Policy(), log=b.log))
                drv = p.SLCDriver(b.host)
                ok = b.call("open", drv.open)[0] == "ok"
                def issue(i):
                    return b.call("read", drv.read, *[f"N7:{(i + k) % 200}" for k in range(250)])
            else:
                b = Bench(rng)
                t, dev = b.simple_target()
                dev.responder = lambda rq: (0, (), b"ok")
                drv = p.CIPDriver(b.host + "/bp/0")
                ok = b.call("open", drv.open)[0] == "ok"
                def issue(i):
                    st = None
                    for k in range(250):
                        st = b.call("gm", drv.generic_message, service=0x0E, class_code=0x64, instance=1 + k, attribute=1, connected=True, request_data=bytes([i & 255]) * (k % 7))
                    return st
            if ok:
                i = 0
                while b.log.counts.get("connected-messages", 0) < 66200 and i < 400:
                    st, out = issue(i)
                    i += 1
                    if st != "ok":
                        res.ev()
                        res.violation(f"long-connection-request-fails:{long_kind}", f"{long_kind} request batch {i} on a long-lived connection -> {out!r:.160} (connected message {b.log.counts.get('connected-messages', 0)})", {"kind": long_kind})
                        break
                    if i % 20 == 0:
                        drain(res, b, f"long:{long_kind}")
                res.count(f"long-connection-messages:{long_kind}", b.log.counts.get("connected-messages", 0))
                res.count("sequence-wraps-observed", b.log.counts.get("sequence-wraps", 0))
                res.seen("long", long_kind, b.log.counts.get("sequence-wraps", 0) > 0)
                b.call("close", drv.close)
            drain(res, b, f"long:{long_kind}")
            b.close()
        except ScenarioDead:
            pass
    res.sample({"frame": "70 00 <len> <session granted by target> 00000000 <context> 00000000 | 00000000 0a00 0200 a100 0400 <O->T id granted> b100 <len> <seq> ...", "checked": "length fields, ids, item count"})
    return res
