#!/usr/bin/env python3
"""Apply a patch to a scratch copy of the repo (outside /repo and /verif), optionally run the
repo's offline tests there, run the given checks against it (VERIF_REPO), then remove the copy.

  tools/try_patch.py <patch.diff|-e 'sed-expr file'> [--tests] [--tier quick] C01 C02 ...
Prints one line per check: CAUGHT (exit 1) / MISSED (exit 0) / INCONCLUSIVE (exit 2)."""
import argparse, os, shutil, subprocess, sys, tempfile

HERE = os.path.dirname(os.path.dirname(os.path.abspath(__file__)))

def main():
    ap = argparse.ArgumentParser()
    ap.add_argument("patch")
    ap.add_argument("checks", nargs="*")
    ap.add_argument("--tests", action="store_true")
    ap.add_argument("--tier", default="quick")
    ap.add_argument("--seed", default="0")
    ap.add_argument("--keep", action="store_true")
    ap.add_argument("-v", action="store_true")
    a = ap.parse_args()
    scratch = tempfile.mkdtemp(prefix="pyc3-scratch-", dir="/tmp")
    rc_all = 0
    try:
        subprocess.run(["git", "-C", "/repo", "worktree", "add", "-q", "--detach", scratch + "/r", "HEAD"], check=True)
        root = scratch + "/r"
        # bring over uncommitted working-tree state of /repo too (normally none)
        r = subprocess.run(["git", "-C", root, "apply", "--whitespace=nowarn", os.path.abspath(a.patch)],
                           capture_output=True, text=True)
        if r.returncode:
            print("PATCH-FAILED", r.stderr.strip()[:400]); return 3
        if a.tests:
            t = subprocess.run(["/venv/bin/python", "-B", "-m", "pytest", "-q", "-p", "no:cacheprovider",
                                "--timeout=900", "tests/offline"], cwd=root, capture_output=True, text=True,
                               env=dict(os.environ, PYTHONDONTWRITEBYTECODE="1"))
            print("TESTS:", t.stdout.strip().splitlines()[-1] if t.stdout.strip() else t.stderr[-200:])
        for c in a.checks:
            env = dict(os.environ, VERIF_REPO=root, VERIF_SEED=a.seed, PYTHONDONTWRITEBYTECODE="1",
                       VERIF_EVIDENCE_DIR=scratch + "/evidence", VERIF_REPLAY_DIR=scratch + "/replays")
            p = subprocess.run(["/venv/bin/python", "-B", os.path.join(HERE, "run_check.py"), c, "--tier", a.tier],
                               capture_output=True, text=True, env=env)
            verdict = {0: "MISSED", 1: "CAUGHT", 2: "INCONCLUSIVE"}.get(p.returncode, f"rc={p.returncode}")
            lines = [l for l in p.stdout.splitlines() if l.startswith(("VIOLATION", "INCONCLUSIVE", "KNOWN"))]
            print(f"{c}: {verdict}  " + (lines[0][:260] if lines else ""))
            if a.v:
                print(p.stdout[-3000:], p.stderr[-2000:])
            if p.returncode != 1:
                rc_all = 1
    finally:
        if not a.keep:
            subprocess.run(["git", "-C", "/repo", "worktree", "remove", "--force", scratch + "/r"], capture_output=True)
            shutil.rmtree(scratch, ignore_errors=True)
            subprocess.run(["git", "-C", "/repo", "worktree", "prune"], capture_output=True)
    return rc_all

if __name__ == "__main__":
    sys.exit(main())
