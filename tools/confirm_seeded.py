#!/usr/bin/env python3
"""Confirm a sub-agent's seeded defect myself and file it under /verif/seeded/<name>/.

  tools/confirm_seeded.py <property> <src dir with patch.diff demo.py notes.md> <name> [--checks C15 C09] [--tier quick]

Steps (all in a scratch worktree of /repo HEAD outside /repo and /verif, removed afterwards):
  1. demo on the clean tree           -> must exit 0
  2. git apply patch                  -> must apply
  3. offline test suite with patch    -> must equal the clean result
  4. demo with patch                  -> must exit non-zero
  5. the listed checks with VERIF_REPO=<scratch> -> recorded (CAUGHT / MISSED / INCONCLUSIVE)
Writes patch.diff, demo.py, notes.md and meta.json."""
import argparse, json, os, shutil, subprocess, sys, tempfile, time

HERE = os.path.dirname(os.path.dirname(os.path.abspath(__file__)))
PY = "/venv/bin/python"


def sh(cmd, cwd=None, env=None, timeout=1800):
    p = subprocess.run(cmd, cwd=cwd, env=env, capture_output=True, text=True, timeout=timeout)
    return p.returncode, p.stdout + p.stderr


def tests(root):
    rc, out = sh([PY, "-B", "-m", "pytest", "-q", "-p", "no:cacheprovider", "--timeout=900", "tests/offline"], cwd=root,
                 env=dict(os.environ, PYTHONDONTWRITEBYTECODE="1"))
    last = [l for l in out.strip().splitlines() if "passed" in l or "failed" in l or "error" in l]
    return (last[-1] if last else out[-200:]).split(" in ")[0]


def main():
    ap = argparse.ArgumentParser()
    ap.add_argument("prop")
    ap.add_argument("src")
    ap.add_argument("name")
    ap.add_argument("--checks", nargs="*", default=None)
    ap.add_argument("--tier", default="quick")
    a = ap.parse_args()
    checks = a.checks or [a.prop]
    scratch = tempfile.mkdtemp(prefix="pyc3-seed-", dir="/tmp")
    root = scratch + "/r"
    meta = {"property": a.prop, "name": a.name, "confirmed_at": time.strftime("%Y-%m-%d %H:%M:%S"), "ran": []}
    try:
        subprocess.run(["git", "-C", "/repo", "worktree", "add", "-q", "--detach", root, "HEAD"], check=True)
        meta["base_commit"] = subprocess.run(["git", "-C", "/repo", "rev-parse", "--short", "HEAD"], capture_output=True, text=True).stdout.strip()
        env = dict(os.environ, PYTHONPATH=root, PYTHONDONTWRITEBYTECODE="1")
        demo = os.path.join(a.src, "demo.py")
        rc0, out0 = sh([PY, "-B", demo], cwd=root, env=env, timeout=600)
        meta["demo_clean_rc"] = rc0
        clean_tests = tests(root)
        rc, out = sh(["git", "-C", root, "apply", "--whitespace=nowarn", os.path.join(a.src, "patch.diff")])
        if rc:
            rc, out = sh(["git", "-C", root, "apply", "--3way", "--whitespace=nowarn", os.path.join(a.src, "patch.diff")])
        meta["patch_applies"] = rc == 0
        if rc:
            print("PATCH DOES NOT APPLY:", out[:500])
            return 3
        # keep the patch as it applies to the current HEAD
        _, cur_patch = sh(["git", "-C", root, "diff"])
        meta["tests_clean"] = clean_tests
        meta["tests_patched"] = tests(root)
        rc1, out1 = sh([PY, "-B", demo], cwd=root, env=env, timeout=600)
        meta["demo_patched_rc"] = rc1
        meta["demo_patched_tail"] = out1.strip().splitlines()[-1][:300] if out1.strip() else ""
        ok = rc0 == 0 and rc1 != 0 and meta["tests_clean"] == meta["tests_patched"]
        meta["confirmed"] = ok
        print(f"{a.name}: demo clean rc={rc0} patched rc={rc1}; tests clean [{meta['tests_clean']}] patched [{meta['tests_patched']}] -> {'CONFIRMED' if ok else 'NOT CONFIRMED'}")
        if rc0 != 0:
            print("  clean demo output tail:", out0.strip()[-400:])
        meta["detected_by"] = {}
        for c in checks:
            cenv = dict(os.environ, VERIF_REPO=root, PYTHONDONTWRITEBYTECODE="1", VERIF_EVIDENCE_DIR=scratch + "/ev", VERIF_REPLAY_DIR=scratch + "/rp")
            t0 = time.time()
            rc, out = sh([PY, "-B", os.path.join(HERE, "run_check.py"), c, "--tier", a.tier], env=cenv, timeout=3600)
            verdict = {0: "MISSED", 1: "CAUGHT", 2: "INCONCLUSIVE"}.get(rc, f"rc={rc}")
            line = next((l for l in out.splitlines() if l.startswith("VIOLATION")), "")
            meta["detected_by"][c] = {"verdict": verdict, "tier": a.tier, "wall_s": round(time.time() - t0, 1),
                                      "first_violation": line.split(" replay=")[0] + " " + " ".join(line.split(" ")[3:])[:300] if line else ""}
            meta["ran"].append(f"VERIF_REPO=<scratch worktree with patch> {PY} -B run_check.py {c} --tier {a.tier}")
            print(f"  {c}: {verdict} {line[:200]}")
        if ok:
            dst = os.path.join(HERE, "seeded", a.name)
            os.makedirs(dst, exist_ok=True)
            open(os.path.join(dst, "patch.diff"), "w").write(cur_patch)
            shutil.copy(demo, os.path.join(dst, "demo.py"))
            notes = os.path.join(a.src, "notes.md")
            if os.path.exists(notes):
                shutil.copy(notes, os.path.join(dst, "notes.md"))
                meta["needs"] = open(notes).read()[:1500]
            meta["ran"] = ["demo.py on clean scratch worktree (exit 0)", "git apply patch.diff", "pytest tests/offline (same result as clean)",
                           "demo.py with patch (exit non-zero)"] + meta["ran"]
            json.dump(meta, open(os.path.join(dst, "meta.json"), "w"), indent=1)
        return 0 if ok else 1
    finally:
        subprocess.run(["git", "-C", "/repo", "worktree", "remove", "--force", root], capture_output=True)
        shutil.rmtree(scratch, ignore_errors=True)
        subprocess.run(["git", "-C", "/repo", "worktree", "prune"], capture_output=True)


if __name__ == "__main__":
    sys.exit(main())
