#!/usr/bin/env python3
"""Regenerates MANIFEST.json from the table below (kept in one place so it stays valid)."""
import json, os
HERE = os.path.dirname(os.path.dirname(os.path.abspath(__file__)))
PY = "/venv/bin/python -B"
CHECKS = {
 # id: (category, technique, level text, note, design ref)
 "C01": ("exploration", "runtime differential against an independent reference Logix target (value/type oracle over the target's memory image)",
         "The real LogixDriver uploads randomly generated controller projects from an independent reference target and reads tags through every documented request shape; each returned Tag is compared with the reference interpretation of the target's memory. Ten controller configurations (firmware generations, Micro800, 4000/500-byte connections) and target-chosen fragment sizes are cycled; element counts are aimed at the byte windows around the connection size; the transport path actually taken (plain / multi-service / fragmented) is read from the target's log.",
         "Reference target + project model per DESIGN.md 4.0 and Appendix A; bounded project sizes (<= 12 kB per tag, depth <= 3).", "4 C01"),
 "C02": ("exploration", "runtime memory-diff and write-journal monitor in the reference Logix target, plus read-back through the driver",
         "Before every write() call the whole controller memory is snapshotted; after it every byte is compared with the reference expectation (addressed bytes = reference encoding, don't-care bytes masked, everything else unchanged), the target's journal of executed write services is matched one-to-one against the successful requests (write / tiling fragments / exact-width read-modify-write touching only requested bits) and the address is read back.",
         "Overlapping requests of one call are judged at journal level only.", "4 C02"),
 "C03": ("exploration", "runtime result-shape / isolation monitor over mixed valid+invalid request lists against the reference Logix target",
         "Calls of 1-40 requests mix valid requests with invalid ones of every class the statement lists (including controller error statuses forced by the target) at first/last/all/alternating/random positions, sized so that requests spread over several multi-service packets, fragmented transfers and bit-write groups; the oracle checks arity/shape, positional correspondence (name, value), falsy+error for invalid requests, no escaping exception, unchanged outcome of the valid ones (values / controller memory) and the Tag truthiness contract.",
         "Undocumented request shapes are tabulated in a census and never judged; out-of-range bit numbers are judged for 'no exception' only.", "4 C03"),
 "C04": ("exploration", "runtime size/tiling monitors inside a reference target that enforces the granted connection size, driven by a dense size sweep",
         "The reference target records the size it granted at Forward Open and checks online every connected data item length, every solicited Read Tag / multi-service reply size, and every fragment offset (reads: offset == bytes returned so far; writes: contiguous from 0, exact cover). The workload sweeps every SINT-array length in the window around the connection size for both connection sizes, both addressing modes, six name lengths, program scope, read and write, single and multi paths and three target fragment policies, plus other element types at the same byte windows, coarse sizes to 3x the connection size and brim-filling mixes of many long-named small tags.",
         "Window width 24 (quick) / 60 (thorough) bytes around S and S/2; connection size semantics as in DESIGN.md section 3.", "4 C04"),
 "C05": ("exploration", "runtime differential: uploaded tag list / type definitions vs the project loaded into the reference target, with metamorphic re-uploads",
         "Random controller projects with every symbol kind are uploaded under target-chosen pagination and template fragmentation; tags, data_types and info are compared field by field with the project model, every uploaded type class must decode the tag's memory image to the reference value, re-uploads under other schedules and after the program is edited (same template ids, new definitions) must match the model, and tags_json must serialise.",
         "Documented keys only; templates always carry a 'Name;n..' entry.", "4 C05"),
 "C06": ("exploration", "runtime round-trip monitor over a generated type grammar (stream position + value equality oracles)",
         "decode(encode(v)) == v, exact stream consumption with trailing junk, and dict-vs-sequence agreement are observed for every value of the 8/16-bit types, boundary/random values of wider types, strings at all prefix limits and thousands of generated nested Array/Struct/StructTag types plus the identity, date, STRINGN and STRINGI constructors.",
         "Domains as documented (docs/getting_started.rst); equality at stored precision; type grammar bounded to depth 3 and 4 KiB.", "4 C06"),
 "C08": ("exploration", "runtime fault-injection on codec inputs with exception-type oracle and sys.monitoring step budget",
         "Out-of-domain values of every listed class and every truncation point / random bytes are fed to every type; the oracle accepts only DataError (BufferEmptyError only when the buffer ends where a value starts, decided by an independent reference parse), flags silent results, foreign exceptions and calls exceeding a 200k line-event budget, and checks T[None] over whole elements.",
         "Reference parser decides 'too short'; documented leniencies (BOOL truthiness, n_bytes slicing) are don't-cares.", "4 C08"),
 "C07": ("exploration", "differential runtime monitor: library codecs vs independent reference codec",
         "Every exported elementary/string/bit-string type is compared with an independent reference codec: exhaustively for all 1- and 2-byte patterns and values, on boundary/walking-bit/special-float/random patterns for wider types, across string prefix widths and FixedSizeString capacities 1..500, and on thousands of generated Array/Struct/StructTag layouts; the type-code table is checked for code and width.",
         "Trusts vlib/refcodec.py (self-tested on the documentation's vectors) and Python's struct/int.to_bytes.", "4 C07"),
 "C09": ("exploration", "runtime path monitor: every emitted EPATH parsed by a strict independent parser and compared with the intended address",
         "Every path built by the library's segment classes and path helpers is re-parsed by a strict CIP EPATH parser and compared with the intended segment sequence: logical values exhaustive to 2^16 plus 32-bit boundaries for five logical types, request_path with int/bytes arguments, tag strings from the documented grammar, port routes for every alias x slot and IPv4 links of every length; the same parser judges every request path the reference target receives in the end-to-end scenarios.",
         "Trusts vlib/refepath.py (CIP Vol 1 App. C-1.4; self-tested on the repository's wire captures and PM020 examples).", "4 C09"),
 "C10": ("fault_enumeration", "runtime lifecycle monitor in the reference target + client-side exception/state oracle, under enumerated single transport faults",
         "Call histories (every history up to length 2 quick / 3 thorough over the public operations of CIPDriver, LogixDriver and SLCDriver, plus random longer ones) are executed against the reference target under five target policies; each is first run fault-free to count its I/O operations, then re-run with one transport fault at operation k (all k in thorough, a spread in quick) of four kinds. The target's lifecycle monitor checks session-before-data, Forward-Open-before-connected-data and the extended-then-standard(500) order; the client side checks exception types, step budgets, driver.connected and the target's session/connection tables after every close, and that a later open works.",
         "Connections live until Forward Close, sessions until UnRegister/TCP close (DESIGN.md Appendix A); a connection whose Forward Close the injected fault destroyed is not a leak.", "4 C10"),
 "C11": ("exploration", "runtime frame monitor: strict encapsulation/CPF parser inside the reference target on every emitted frame, plus OS-level one-frame-per-send check",
         "Every frame emitted during lifecycle histories with faults and re-opens, generic messages of every payload length 0..600 (random to 3970) over all three transports, and Logix upload/multi-service/fragmented/read-modify-write traffic on ten configurations is parsed strictly (lengths, command, session handle granted by the target, status/options 0, two items with exact lengths, target-chosen connection id, sequence count first).",
         "Session handles and connection ids are chosen at random by the target, never the library's defaults.", "4 C11"),
 "C12": ("fault_enumeration", "runtime fault injection on a scripted fake OS socket (segmentation schedules x close/timeout/reset points) with byte-equality and termination oracles",
         "The real Socket.receive/Socket.send run over a fake OS socket whose schedule enumerates every subset of a boundary cut-set as split points, all uniform chunk sizes 1..256 and random compositions for frames at every length class, and for each frame every prefix class x {peer close, timeout, reset, OSError}; send is driven through every partial-send pattern, 0-byte sends and errors after j bytes.",
         "Enumeration is exhaustive over the stated cut-set, not over all 2^(n-1) compositions; one frame in flight.", "4 C12"),
 "C13": ("exploration", "runtime fault injection on replies (status override, header-only errors, truncation, corruption) with result-classification oracle",
         "For ten request kinds the reference target overrides the general status (0..255) and extended status (0-2 words) of a chosen reply (each fragment position for fragmented transfers, every per-service status vector of length 4 over {0,4,5,6,0xFF} for multi-service packets); header-only encapsulation errors, every truncation length and random corruptions are injected below the transport. The oracle demands truthy exactly for status 0 (6 for continuing services), falsy with an error text naming the status otherwise, only library exceptions, and never success from a reply too short for its status words; the open/upload path (register session, list identity, symbol pages, templates) is covered the same way.",
         "Status 6 on services 0x03/0x0A/0x53 is a don't-care; for malformed replies only exception type and not-a-success are judged.", "4 C13"),
 "C14": ("exploration", "runtime router-journal monitor in an independent reference target + reply-value oracle",
         "The real driver sends generated generic messages (all three transports, every route_path form, int/bytes path arguments of 8/16/32 bits, every data length 0..64 and random to 400) to a reference target over a generated chassis; the target journals the (transport, service, path, data, route) it actually received and chooses the reply; journal and returned Tag are compared with the request and the reply. Helpers are checked against a controller shell with a frozen clock.",
         "Reference target per DESIGN.md Appendix A; direct-UCMM route appending is by design.", "4 C14"),
 "C15": ("exploration", "runtime differential: library parser vs reference recogniser over generated spellings and single-edit corruptions",
         "Routes from the documented grammar are spelled 8 ways each and must all yield the reference host/port/route bytes; every single-character edit of sampled spellings is classified by an independent recogniser (in grammar / listed rejection class / don't-care) and the library's outcome compared; driver constructors are checked for the shortcut rules including cross-instance aliasing.",
         "Grammar and rejection classes as listed in the property; unusual hosts, upper-case aliases, leading zeros, numeric ports outside 1..14 are don't-cares.", "4 C15"),
 "C16": ("exploration", "runtime differential: identities configured in the reference target vs dicts returned by every entry point",
         "Identities over the whole field domain are configured in the reference target (TCP ListIdentity, Identity object via UCMM and Unconnected Send, UDP discovery with 0..5 replies) and every field returned by list_identity/_list_identity/get_module_info/get_plc_info/discover is compared; ModuleIdentityObject encode/decode is checked for layout and round trip.",
         "Vendor/product-type texts come from the library's own tables.", "4 C16"),
 "C17": ("exploration", "runtime per-connection sequence monitor in the reference target over long real histories and wrap-phase sweeps",
         "The target compares the sequence count of every connected data item with the previous one on that connection (and, like a real target, answers a repeat from its reply cache). Workloads: histories of more than 65 535 real connected requests per request kind so the counter wraps inside real traffic, every request kind x phase offset around the wrap, and lifecycle histories with lost replies / resets.",
         "The phase sweep advances the driver's counter through its `_sequence` generator; without that attribute only the long histories and fault histories run.", "4 C17"),
 "C18": ("exploration", "runtime differential against a reference SLC data table: PCCC command journal, table diff and read-back",
         "Addresses from the data-file grammar (every Bf/n bit number 0..4095, files/elements incl. 255, all forms and cases) are read and written through SLCDriver against a reference PCCC target; the command the target received is compared with what the address denotes, values with the data table, the whole table is diffed after every write, and malformed addresses must raise RequestError.",
         "Reference data-table model per 1770-RM516; ST/A files and timer/counter writes are outside the property.", "4 C18"),
 "C19": ("exploration", "exhaustive runtime enumeration of every lookup against the class bodies",
         "Every EnumMap table found by walking the package is exercised exhaustively (all members x 9 casing classes, all codes, status 0..255, all extended pairs) against an oracle derived from the class bodies; the quantifier is finite, so the run is complete (exhaustive: true).",
         "Oracle reads members from vars(cls); trusts Python dict/str semantics.", "4 C19"),
}
PENDING = {}
def main():
    props = [json.loads(l)["id"] for l in open(os.path.join(HERE, "properties.jsonl"))]
    checks = []
    for pid in props:
        if pid not in CHECKS:
            continue
        cat, tech, text, note, ref = CHECKS[pid]
        checks.append({
            "property_id": pid,
            "quick_cmd": f"{PY} run_check.py {pid} --tier quick",
            "thorough_cmd": f"{PY} run_check.py {pid} --tier thorough",
            "evidence_file": f"evidence/{pid}.json",
            "replay_cmd_template": f"{PY} run_check.py {pid} --replay {{path}}",
            "engine": "pycomm3-runtime-monitor",
            "level_claimed": {"category": cat, "text": text, "design_ref": f"DESIGN.md section {ref}"},
            "level_note": note,
            "technique": tech,
        })
    na = [{"property_id": p, "reason": PENDING.get(p, "check not built yet in this session (runtime monitor planned in DESIGN.md section 4); not claimed until it runs clean")}
          for p in props if p not in CHECKS]
    m = {
        "version": 1,
        "setup_cmd": f"{PY} selftest.py",
        "hooks": {
            "guard": "PYCOMM3_VERIF",
            "enable": "no source hooks: the harness replaces socket.socket / os.urandom bindings at run time inside its own process (DESIGN.md 2.1); checks import /repo's working tree directly (VERIF_REPO)",
            "baseline_off_cmd": "cd /repo && /venv/bin/python -m pytest -ra -q -p no:cacheprovider --timeout=900 --continue-on-collection-errors",
            "source_commits": [],
            "add_only": True,
        },
        "engines": [{"name": "pycomm3-runtime-monitor", "path": "run_check.py",
                     "serves_properties": [c["property_id"] for c in checks],
                     "kind_free_text": "runtime monitoring: real library code driven by generated/hostile workloads against an independent in-process reference target and reference codecs; online monitors + offline trace checkers; sys.monitoring step budgets and reachability"}],
        "checks": checks,
        "not_applicable": na,
        "notes": "All checks: exit 0 held, 1 violation (VIOLATION line + replay file), 2 inconclusive. VERIF_SEED seeds every random choice. Known findings: known_findings.json.",
    }
    json.dump(m, open(os.path.join(HERE, "MANIFEST.json"), "w"), indent=1)
    print("checks:", len(checks), "not_applicable:", len(na))
if __name__ == "__main__":
    main()
