#!/usr/bin/env python3
"""Automated mutation self-test (DESIGN.md section 6, item 3; not a manifest command).

Generates small syntactic mutants of pycomm3 (comparison / arithmetic / boolean operator swaps, integer constants +-1,
negated conditions, deleted statements), keeps those under which the repository's offline tests still pass, runs the
quick checks of the properties anchored in the mutated file against a scratch worktree (outside /repo and /verif,
removed afterwards) and logs which check kills which mutant.  Survivors are the input for strengthening checks.

  tools/mutation_sweep.py --out /path/log.jsonl [--files pycomm3/util.py ...] [--per-file 40] [--seed 0] [--jobs 2]"""
import argparse
import ast
import concurrent.futures
import json
import os
import random
import shutil
import subprocess
import sys
import tempfile

HERE = os.path.dirname(os.path.dirname(os.path.abspath(__file__)))
PY = "/venv/bin/python"
SKIP_FILES = {"pycomm3/cip/status_info.py", "pycomm3/cip/object_library.py", "pycomm3/logger.py", "pycomm3/_version.py", "pycomm3/__init__.py",
              "pycomm3/cip/__init__.py", "pycomm3/packets/__init__.py", "pycomm3/exceptions.py"}
CMP = {ast.Lt: "<=", ast.LtE: "<", ast.Gt: ">=", ast.GtE: ">", ast.Eq: "!=", ast.NotEq: "==", ast.In: "not in", ast.NotIn: "in"}
CMP_SRC = {ast.Lt: "<", ast.LtE: "<=", ast.Gt: ">", ast.GtE: ">=", ast.Eq: "==", ast.NotEq: "!=", ast.In: "in", ast.NotIn: "not in"}
BIN = {ast.Add: ("+", "-"), ast.Sub: ("-", "+"), ast.Mult: ("*", "//"), ast.FloorDiv: ("//", "*"), ast.Mod: ("%", "//"), ast.LShift: ("<<", ">>"),
       ast.RShift: (">>", "<<"), ast.BitAnd: ("&", "|"), ast.BitOr: ("|", "&")}


def file_checks():
    m = {}
    for line in open(os.path.join(HERE, "properties.jsonl")):
        p = json.loads(line)
        for f in p["anchors"]["files"]:
            m.setdefault(f, []).append(p["id"])
    # constants are imported by the drivers: a mutated constant shows in the properties of its users, not of the file it lives in
    # (BASE_TAG_BIT / MIN_VER_EXTERNAL_ACCESS survived the second sweep only because C05 was not among the checks run for const.py)
    for extra in ("C05", "C01", "C03", "C13", "C10"):
        if extra not in m.setdefault("pycomm3/const.py", []):
            m["pycomm3/const.py"].append(extra)
    # discover() / list_identity() live in cip_driver.py; the reply classification they feed is C13's (UDP replies ok / status / cut)
    if "C13" not in m.setdefault("pycomm3/cip_driver.py", []):
        m["pycomm3/cip_driver.py"].append("C13")
    return m


def mutants_for(path, src, rng, limit):
    tree = ast.parse(src)
    lines = src.split("\n")
    out = []

    def seg(node):
        return (node.lineno, node.col_offset, node.end_lineno, node.end_col_offset)

    def replace_span(l1, c1, l2, c2, text):
        if l1 != l2:
            return None
        ln = lines[l1 - 1]
        new = ln[:c1] + text + ln[c2:]
        return "\n".join(lines[: l1 - 1] + [new] + lines[l1:])

    def between(left, right, old, new):
        """replace operator text `old` found between two sibling expression nodes on one line"""
        if left.end_lineno != right.lineno:
            return None
        ln = lines[left.end_lineno - 1]
        mid = ln[left.end_col_offset:right.col_offset]
        if mid.count(old) != 1 or (old in ("<", ">") and (old + "=") in mid) or (old in ("<", ">") and (old * 2) in mid):
            return None
        nm = mid.replace(old, new)
        new_ln = ln[:left.end_col_offset] + nm + ln[right.col_offset:]
        return "\n".join(lines[: left.end_lineno - 1] + [new_ln] + lines[left.end_lineno:])

    doc_lines = set()
    for node in ast.walk(tree):
        if isinstance(node, (ast.FunctionDef, ast.ClassDef, ast.Module)) and node.body and isinstance(node.body[0], ast.Expr) and \
                isinstance(getattr(node.body[0], "value", None), ast.Constant) and isinstance(node.body[0].value.value, str):
            doc_lines.update(range(node.body[0].lineno, node.body[0].end_lineno + 1))
    for node in ast.walk(tree):
        if isinstance(node, ast.Compare) and len(node.ops) == 1 and type(node.ops[0]) in CMP:
            s = between(node.left, node.comparators[0], CMP_SRC[type(node.ops[0])], CMP[type(node.ops[0])])
            if s:
                out.append((node.lineno, f"cmp {CMP_SRC[type(node.ops[0])]}->{CMP[type(node.ops[0])]}", s))
        elif isinstance(node, ast.BinOp) and type(node.op) in BIN:
            if isinstance(node.left, ast.Constant) and isinstance(node.left.value, (str, bytes)):
                continue
            old, new = BIN[type(node.op)]
            s = between(node.left, node.right, old, new)
            if s:
                out.append((node.lineno, f"binop {old}->{new}", s))
        elif isinstance(node, ast.BoolOp) and len(node.values) == 2:
            old, new = ("and", "or") if isinstance(node.op, ast.And) else ("or", "and")
            s = between(node.values[0], node.values[1], old, new)
            if s:
                out.append((node.lineno, f"boolop {old}->{new}", s))
        elif isinstance(node, ast.Constant) and isinstance(node.value, int) and not isinstance(node.value, bool) and node.lineno not in doc_lines:
            l1, c1, l2, c2 = seg(node)
            txt = lines[l1 - 1][c1:c2] if l1 == l2 else ""
            if txt and txt.replace("_", "").lstrip("0x").lstrip("0b").isalnum() and abs(node.value) < 70000:
                for d in (1, -1):
                    if node.value + d < 0:
                        continue
                    s = replace_span(l1, c1, l2, c2, str(node.value + d))
                    if s:
                        out.append((node.lineno, f"const {node.value}->{node.value + d}", s))
        elif isinstance(node, (ast.If, ast.While)) and not isinstance(node.test, ast.Constant):
            l1, c1, l2, c2 = seg(node.test)
            if l1 == l2:
                s = replace_span(l1, c1, l2, c2, "not (" + lines[l1 - 1][c1:c2] + ")")
                if s:
                    out.append((node.lineno, "negate-condition", s))
        elif isinstance(node, (ast.Assign, ast.AugAssign, ast.Expr)) and node.lineno not in doc_lines and node.lineno == node.end_lineno:
            if isinstance(node, ast.Expr) and not isinstance(node.value, ast.Call):
                continue
            ln = lines[node.lineno - 1]
            if "__log" in ln or "logger" in ln or ln.strip().startswith(("self.__log", "cls.__log")):
                continue
            indent = ln[: len(ln) - len(ln.lstrip())]
            s = "\n".join(lines[: node.lineno - 1] + [indent + "pass"] + lines[node.lineno:])
            out.append((node.lineno, "delete-statement", s))
    # only mutants inside functions / class bodies that still compile
    good = []
    for ln, op, s in out:
        try:
            compile(s, path, "exec")
        except SyntaxError:
            continue
        good.append((ln, op, s))
    rng.shuffle(good)
    return good[:limit]


def run_mutant(job):
    idx, rel, lineno, op, mutated, checks, tier = job
    scratch = tempfile.mkdtemp(prefix="pyc3-mut-", dir="/tmp")
    root = scratch + "/r"
    rec = {"id": idx, "file": rel, "line": lineno, "op": op}
    try:
        subprocess.run(["git", "-C", "/repo", "worktree", "add", "-q", "--detach", root, "HEAD"], check=True, capture_output=True)
        orig = open(os.path.join(root, rel)).read().split("\n")
        rec["orig_line"] = orig[lineno - 1].strip()[:160]
        rec["new_line"] = mutated.split("\n")[lineno - 1].strip()[:160]
        open(os.path.join(root, rel), "w").write(mutated)
        env = dict(os.environ, PYTHONDONTWRITEBYTECODE="1")
        t = subprocess.run([PY, "-B", "-m", "pytest", "-q", "-x", "-p", "no:cacheprovider", "--timeout=120", "tests/offline"], cwd=root, capture_output=True, text=True, env=env, timeout=600)
        rec["tests_pass"] = t.returncode == 0
        if not rec["tests_pass"]:
            return rec
        rec["checks"] = {}
        for c in checks:
            cenv = dict(env, VERIF_REPO=root, VERIF_EVIDENCE_DIR=scratch + "/ev", VERIF_REPLAY_DIR=scratch + "/rp", VERIF_SEED="0")
            try:
                p = subprocess.run([PY, "-B", os.path.join(HERE, "run_check.py"), c, "--tier", tier], capture_output=True, text=True, env=cenv, timeout=1500)
                v = {0: "survived", 1: "killed", 2: "inconclusive"}.get(p.returncode, f"rc{p.returncode}")
                line = next((l for l in p.stdout.splitlines() if l.startswith(("VIOLATION", "INCONCLUSIVE"))), "")
                rec["checks"][c] = {"verdict": v, "first": line[:240]}
            except subprocess.TimeoutExpired:
                rec["checks"][c] = {"verdict": "timeout", "first": ""}
            if rec["checks"][c]["verdict"] == "killed":
                break
        rec["killed"] = any(v["verdict"] == "killed" for v in rec["checks"].values())
        return rec
    except Exception as e:  # noqa
        rec["error"] = repr(e)[:200]
        return rec
    finally:
        subprocess.run(["git", "-C", "/repo", "worktree", "remove", "--force", root], capture_output=True)
        shutil.rmtree(scratch, ignore_errors=True)
        subprocess.run(["git", "-C", "/repo", "worktree", "prune"], capture_output=True)


def main():
    ap = argparse.ArgumentParser()
    ap.add_argument("--out", required=True)
    ap.add_argument("--files", nargs="*")
    ap.add_argument("--per-file", type=int, default=40)
    ap.add_argument("--seed", type=int, default=0)
    ap.add_argument("--jobs", type=int, default=2)
    ap.add_argument("--tier", default="quick")
    a = ap.parse_args()
    rng = random.Random(a.seed)
    fmap = file_checks()
    files = a.files or sorted(f for f in fmap if f not in SKIP_FILES)
    jobs = []
    for rel in files:
        src = open(os.path.join("/repo", rel)).read()
        checks = fmap.get(rel, [])
        if not checks:
            continue
        # cheapest checks first
        order = ["C19", "C06", "C07", "C09", "C12", "C15", "C16", "C14", "C11", "C13", "C18", "C10", "C03", "C05", "C02", "C17", "C01", "C04", "C08"]
        checks = sorted(checks, key=order.index)
        for ln, op, s in mutants_for(rel, src, rng, a.per_file):
            jobs.append((len(jobs), rel, ln, op, s, checks, a.tier))
    print(f"{len(jobs)} mutants over {len(files)} files", flush=True)
    done = 0
    with open(a.out, "a") as fh, concurrent.futures.ThreadPoolExecutor(a.jobs) as ex:
        for rec in ex.map(run_mutant, jobs):
            fh.write(json.dumps(rec) + "\n")
            fh.flush()
            done += 1
            st = "tests-kill" if not rec.get("tests_pass") else ("KILLED" if rec.get("killed") else "SURVIVED")
            print(f"[{done}/{len(jobs)}] {rec['file']}:{rec['line']} {rec['op']:<22} {st}  {rec.get('new_line', '')[:80]}", flush=True)


if __name__ == "__main__":
    sys.exit(main())
