#!/usr/bin/env python3
"""Re-verify every seeded change under seeded/ against the current /repo HEAD and the current checks.

For each seeded/<name>/: scratch worktree of /repo HEAD (outside /repo and /verif, removed afterwards), `git apply patch.diff`,
run the quick tier of the property's check (and any --extra checks) with VERIF_REPO pointing at the worktree, record the
verdict in meta.json["recheck"].  Prints one line per change and a summary; exits 1 if any change is no longer caught.

  tools/rerun_seeded.py [--jobs 4] [--only C07] [--seeds 0 1]"""
import argparse, concurrent.futures, json, os, shutil, subprocess, sys, tempfile, time

HERE = os.path.dirname(os.path.dirname(os.path.abspath(__file__)))
PY = "/venv/bin/python"


def one(job):
    name, seeds = job
    d = os.path.join(HERE, "seeded", name)
    meta = json.load(open(os.path.join(d, "meta.json")))
    prop = meta["property"]
    scratch = tempfile.mkdtemp(prefix="pyc3-reseed-", dir="/tmp")
    root = scratch + "/r"
    rec = {"commit": subprocess.run(["git", "-C", "/repo", "rev-parse", "--short", "HEAD"], capture_output=True, text=True).stdout.strip(),
           "at": time.strftime("%Y-%m-%d %H:%M:%S"), "runs": []}
    try:
        subprocess.run(["git", "-C", "/repo", "worktree", "add", "-q", "--detach", root, "HEAD"], check=True, capture_output=True)
        r = subprocess.run(["git", "-C", root, "apply", "--whitespace=nowarn", os.path.join(d, "patch.diff")], capture_output=True, text=True)
        rec["patch_applies"] = r.returncode == 0
        if r.returncode == 0:
            # the checks that caught it when it was filed (some changes are caught by another property's check than the one they were
            # written against - recorded in detected_by); the first of them that reports is enough
            checks = [c for c, v in meta.get("detected_by", {}).items() if v.get("verdict") == "CAUGHT"] or [prop]
            for seed in seeds:
                env = dict(os.environ, VERIF_REPO=root, VERIF_SEED=str(seed), PYTHONDONTWRITEBYTECODE="1", PYTHONHASHSEED="0",
                           VERIF_EVIDENCE_DIR=scratch + "/ev", VERIF_REPLAY_DIR=scratch + "/rp")
                t0 = time.time()
                verdict, line, used = "MISSED", "", None
                for chk in checks:
                    p = subprocess.run([PY, "-B", os.path.join(HERE, "run_check.py"), chk, "--tier", "quick"], capture_output=True, text=True, env=env, timeout=3000)
                    line = next((l for l in p.stdout.splitlines() if l.startswith(("VIOLATION", "INCONCLUSIVE"))), "")
                    verdict, used = {0: "MISSED", 1: "CAUGHT", 2: "INCONCLUSIVE"}.get(p.returncode, f"rc{p.returncode}"), chk
                    if verdict == "CAUGHT":
                        break
                rec["runs"].append({"seed": seed, "check": used, "verdict": verdict, "wall_s": round(time.time() - t0, 1), "first": line[:200]})
            if any(r["verdict"] != "CAUGHT" for r in rec["runs"]):
                # does the change still break anything on the current HEAD?  (a later fix: commit may have made it inert)
                p = subprocess.run([PY, "-B", os.path.join(d, "demo.py")], cwd=root, capture_output=True, text=True, timeout=600,
                                   env=dict(os.environ, PYTHONPATH=root, PYTHONDONTWRITEBYTECODE="1"))
                rec["demo_patched_rc"] = p.returncode
                rec["superseded"] = p.returncode == 0
    except Exception as e:  # noqa
        rec["error"] = repr(e)[:200]
    finally:
        subprocess.run(["git", "-C", "/repo", "worktree", "remove", "--force", root], capture_output=True)
        shutil.rmtree(scratch, ignore_errors=True)
        subprocess.run(["git", "-C", "/repo", "worktree", "prune"], capture_output=True)
    meta["recheck"] = rec
    json.dump(meta, open(os.path.join(d, "meta.json"), "w"), indent=1)
    return name, rec


def main():
    ap = argparse.ArgumentParser()
    ap.add_argument("--jobs", type=int, default=4)
    ap.add_argument("--only", nargs="*")
    ap.add_argument("--seeds", nargs="*", type=int, default=[0])
    a = ap.parse_args()
    names = sorted(n for n in os.listdir(os.path.join(HERE, "seeded")) if os.path.exists(os.path.join(HERE, "seeded", n, "meta.json")))
    if a.only:
        names = [n for n in names if any(n.startswith(o) for o in a.only)]
    bad = 0
    with concurrent.futures.ThreadPoolExecutor(a.jobs) as ex:
        for name, rec in ex.map(one, [(n, a.seeds) for n in names]):
            vs = [r["verdict"] for r in rec["runs"]]
            ok = rec.get("patch_applies") and vs and all(v == "CAUGHT" for v in vs)
            if not ok and rec.get("superseded"):
                print(f"{name:<12} SUPERSEDED: its own demonstration passes with the patch on the current HEAD (a later fix made it inert) {vs}", flush=True)
                continue
            bad += not ok
            print(f"{name:<12} {'ok ' if ok else 'BAD'} applies={rec.get('patch_applies')} {vs} {rec.get('error', '')}", flush=True)
    print(f"{len(names)} seeded changes, {bad} not caught")
    return 1 if bad else 0


if __name__ == "__main__":
    sys.exit(main())
