#!/usr/bin/env python3
"""Which statement lines of pycomm3 do the checks' workloads never execute?  (diagnostic, not a manifest command)

Runs the given checks (default: all, quick tier) with VERIF_LINECOV_DIR set, so every shard records first-hit LINE events
(sys.monitoring, self-disabling, negligible cost), merges them and prints, per file, the statement lines that no workload
reached, grouped by function.  This is the 'reach' side of runtime monitoring: a line nobody executes is a line about
which the monitors have said nothing.

  tools/line_reach.py [--tier quick] [--out report.json] [C01 C02 ...]"""
import argparse, ast, glob, json, os, shutil, subprocess, sys, tempfile

HERE = os.path.dirname(os.path.dirname(os.path.abspath(__file__)))
sys.path.insert(0, HERE)
PY = "/venv/bin/python"
SKIP = {"pycomm3/cip/status_info.py", "pycomm3/cip/object_library.py", "pycomm3/_version.py"}


def statement_lines(src):
    """line -> enclosing function qualname, for every statement that is not a docstring / def / class header"""
    tree = ast.parse(src)
    out = {}

    def walk(node, qual):
        for ch in ast.iter_child_nodes(node):
            if isinstance(ch, (ast.FunctionDef, ast.AsyncFunctionDef, ast.ClassDef)):
                walk(ch, (qual + "." if qual else "") + ch.name)
            elif isinstance(ch, ast.stmt):
                if isinstance(ch, ast.Expr) and isinstance(ch.value, ast.Constant) and isinstance(ch.value.value, str):
                    continue
                if not isinstance(ch, (ast.Import, ast.ImportFrom, ast.Global, ast.Nonlocal, ast.Pass)):
                    out[ch.lineno] = qual or "<module>"
                walk(ch, qual)
            else:
                walk(ch, qual)
    walk(tree, "")
    return out


def main():
    ap = argparse.ArgumentParser()
    ap.add_argument("checks", nargs="*")
    ap.add_argument("--tier", default="quick")
    ap.add_argument("--out")
    ap.add_argument("--seed", default="0")
    a = ap.parse_args()
    from vlib import common
    repo = common.REPO
    checks = a.checks or [f"C{i:02d}" for i in range(1, 20)]
    d = tempfile.mkdtemp(prefix="pyc3-linecov-", dir="/tmp")
    try:
        per_check = {}
        for c in checks:
            cd = os.path.join(d, c)
            env = dict(os.environ, VERIF_LINECOV_DIR=cd, VERIF_SEED=a.seed, VERIF_EVIDENCE_DIR=d + "/ev", VERIF_REPLAY_DIR=d + "/rp", PYTHONDONTWRITEBYTECODE="1")
            p = subprocess.run([PY, "-B", os.path.join(HERE, "run_check.py"), c, "--tier", a.tier], capture_output=True, text=True, env=env)
            hit = set()
            for f in glob.glob(cd + "/*.json"):
                hit.update(tuple(x) for x in json.load(open(f)))
            per_check[c] = hit
            print(f"{c}: rc={p.returncode} lines hit={len(hit)}", flush=True)
        allhit = set().union(*per_check.values())
        report = {}
        tot = miss = 0
        for root, _, files in os.walk(os.path.join(repo, "pycomm3")):
            for fn in sorted(files):
                if not fn.endswith(".py"):
                    continue
                rel = os.path.relpath(os.path.join(root, fn), repo)
                if rel in SKIP:
                    continue
                st = statement_lines(open(os.path.join(repo, rel)).read())
                src = open(os.path.join(repo, rel)).read().split("\n")
                missing = {}
                for ln, q in sorted(st.items()):
                    tot += 1
                    if (rel, ln) not in allhit:
                        miss += 1
                        missing.setdefault(q, []).append(ln)
                report[rel] = {"statements": len(st), "missed": sum(len(v) for v in missing.values()), "by_function": missing}
                print(f"\n== {rel}: {len(st) - report[rel]['missed']}/{len(st)} statement lines reached")
                for q, lns in missing.items():
                    print(f"   {q}: " + ", ".join(f"{n}" for n in lns[:40]))
                    for n in lns[:6]:
                        print(f"        {n}: {src[n - 1].strip()[:110]}")
        print(f"\nTOTAL {tot - miss}/{tot} statement lines reached by {len(checks)} checks ({a.tier})")
        if a.out:
            json.dump({"tier": a.tier, "checks": checks, "total": tot, "missed": miss, "files": report}, open(a.out, "w"), indent=1)
    finally:
        shutil.rmtree(d, ignore_errors=True)


if __name__ == "__main__":
    main()
